#![cfg(feature = "shuttle")]

//! Reproducer for a panic on UNMODIFIED salsa:
//! `Can't merge cycle heads eval(..) with different iterations` (src/cycle.rs, `CycleHeads::insert`).
//!
//! One keyed fixpoint query `eval(prog, n)` interprets a small monotone graph program with four
//! nodes. Three threads enter the (nested, conditional) cycles at different members.
//!
//! Run with:
//! `cargo test --offline --features shuttle --test side_C18 -- --test-threads=1`

use shuttle::thread;

const MAX: u32 = 4;

#[derive(Clone, Debug, PartialEq, Eq, Hash)]
struct Edge {
    target: u32,
    add: u32,
    /// The edge is only followed when the value accumulated so far is `>= guard`.
    guard: u32,
}

#[derive(Clone, Debug, PartialEq, Eq, Hash)]
struct NodeDef {
    base: u32,
    edges: Vec<Edge>,
}

#[salsa::input]
struct Prog {
    #[returns(ref)]
    nodes: Vec<NodeDef>,
}

/// `eval(n) = fold over n's edges, starting with acc = base:`
/// * stop as soon as `acc == MAX` (short circuit)
/// * skip the edge if `acc < guard`
/// * otherwise `acc = max(acc, min(eval(target) + add, MAX))`
///
/// All functions are monotone, so the least fixpoint is unique.
#[salsa::tracked(returns(copy), cycle_initial=initial)]
fn eval(db: &dyn salsa::Database, prog: Prog, n: u32) -> u32 {
    let def = &prog.nodes(db)[n as usize];
    let mut acc = def.base;
    for e in &def.edges {
        if acc >= MAX {
            break;
        }
        if acc >= e.guard {
            let v = eval(db, prog, e.target);
            acc = acc.max((v + e.add).min(MAX));
        }
    }
    acc
}

fn initial(_db: &dyn salsa::Database, _id: salsa::Id, _prog: Prog, _n: u32) -> u32 {
    0
}

fn e(target: u32, add: u32, guard: u32) -> Edge {
    Edge { target, add, guard }
}

fn program() -> Vec<NodeDef> {
    vec![
        // node 0
        NodeDef {
            base: 1,
            edges: vec![e(1, 1, 2), e(0, 0, 0), e(3, 0, 0)],
        },
        // node 1
        NodeDef {
            base: 1,
            edges: vec![e(3, 2, 0), e(2, 0, 0)],
        },
        // node 2
        NodeDef {
            base: 0,
            edges: vec![e(2, 0, 1), e(2, 2, 0), e(3, 0, 1)],
        },
        // node 3
        NodeDef {
            base: 0,
            edges: vec![e(0, 0, 0), e(2, 0, 0), e(1, 1, 1)],
        },
    ]
}

/// Kleene iteration: the expected (single-threaded) result.
fn lfp(nodes: &[NodeDef]) -> Vec<u32> {
    let mut vals = vec![0u32; nodes.len()];
    loop {
        let mut changed = false;
        for (i, def) in nodes.iter().enumerate() {
            let mut acc = def.base;
            for e in &def.edges {
                if acc >= MAX {
                    break;
                }
                if acc >= e.guard {
                    acc = acc.max((vals[e.target as usize] + e.add).min(MAX));
                }
            }
            if acc != vals[i] {
                vals[i] = acc;
                changed = true;
            }
        }
        if !changed {
            return vals;
        }
    }
}

static ITERATION: std::sync::atomic::AtomicUsize = std::sync::atomic::AtomicUsize::new(0);

fn scenario() {
    let it = ITERATION.fetch_add(1, std::sync::atomic::Ordering::Relaxed) + 1;
    if std::env::var("SIDE_C18_TRACE").is_ok() {
        eprintln!("=== side_C18 iteration {it} ===");
    }
    let nodes = program();
    let expected = lfp(&nodes);
    // Which nodes each thread evaluates, in order.
    let entries: Vec<Vec<u32>> = vec![vec![0], vec![1], vec![2, 1]];

    let db = salsa::DatabaseImpl::default();
    let prog = Prog::new(&db, nodes);
    let mut handles = Vec::new();
    for ent in entries {
        let db = db.clone();
        let expected = expected.clone();
        handles.push(thread::spawn(move || {
            let _span = tracing::info_span!("thread", entries = ?ent).entered();
            for n in ent.clone() {
                let v = eval(&db, prog, n);
                assert_eq!(v, expected[n as usize], "node {n} wrong value");
            }
        }));
    }
    for h in handles {
        h.join().unwrap();
    }
}

fn iterations() -> usize {
    std::env::var("SIDE_C18_ITERS")
        .ok()
        .and_then(|v| v.parse().ok())
        .unwrap_or(200)
}

#[test]
fn single_threaded() {
    // Sanity: every entry order on one thread gives the least fixpoint.
    let nodes = program();
    let expected = lfp(&nodes);
    shuttle::check_random(
        move || {
            for order in [[0u32, 1, 2, 3], [3, 2, 1, 0], [2, 1, 0, 3], [1, 0, 3, 2]] {
                let db = salsa::DatabaseImpl::default();
                let prog = Prog::new(&db, nodes.clone());
                for n in order {
                    assert_eq!(eval(&db, prog, n), expected[n as usize]);
                }
            }
        },
        1,
    );
}

fn seed() -> u64 {
    std::env::var("SIDE_C18_SEED")
        .ok()
        .and_then(|v| v.parse().ok())
        .unwrap_or(1)
}

fn run_pct(seed: u64, depth: usize, iterations: usize) {
    ITERATION.store(0, std::sync::atomic::Ordering::Relaxed);
    let result = std::panic::catch_unwind(move || {
        let mut config = shuttle::Config::default();
        config.stack_size = 1024 * 1024;
        let scheduler = shuttle::scheduler::PctScheduler::new_from_seed(seed, depth, iterations);
        shuttle::Runner::new(scheduler, config).run(scenario);
    });
    if let Err(e) = result {
        eprintln!(
            "side_C18: PCT seed {seed}, depth {depth}: failed in iteration {} (1-based)",
            ITERATION.load(std::sync::atomic::Ordering::Relaxed)
        );
        std::panic::resume_unwind(e);
    }
}

/// PCT scheduler with a fixed seed (same depth as `tests/parallel/main.rs` uses 50; 30 here).
#[test_log::test]
fn three_threads_pct() {
    run_pct(seed(), 30, iterations());
}

#![cfg(feature = "persist")]
//! C26 (fixed): a restored memo whose dependency is another persisted function panicked with
//! "tracked function ingredients cannot be accessed before calling `init`" when it was verified
//! before that dependency had been called directly in the restored database.
use salsa::Setter;

#[salsa::input(persist)]
struct In {
    #[returns(copy)]
    x: u32,
    #[returns(copy)]
    y: u32,
}

#[salsa::tracked(returns(copy), persist)]
fn inner(db: &dyn salsa::Database, i: In) -> u32 {
    i.x(db)
}

#[salsa::tracked(returns(copy), persist)]
fn outer(db: &dyn salsa::Database, i: In) -> u32 {
    inner(db, i) + 1
}

#[test]
fn verify_restored_memo_through_uncalled_dependency() {
    use salsa::plumbing::ZalsaDatabase;
    let mut db = salsa::DatabaseImpl::new();
    let i = In::new(&db, 1, 0);
    assert_eq!(outer(&db, i), 2);
    let json = serde_json::to_string(&<dyn salsa::Database>::as_serialize(&mut db)).unwrap();
    let mut db2 = salsa::DatabaseImpl::new();
    <dyn salsa::Database>::deserialize(&mut db2, &mut serde_json::Deserializer::from_str(&json)).unwrap();
    let i2 = In::ingredient(&db2).entries(db2.zalsa()).next().unwrap().as_struct();
    // an unrelated write forces deep verification of `outer`, which walks its edge to `inner`
    i2.set_y(&mut db2).to(5);
    assert_eq!(outer(&db2, i2), 2);
}

//! n0 -> n1 -> n4 -> {n0, n3}; n3 -> {n3, n4}. All fixpoint functions over bit sets (initial 0).
//! R1: n1 contributes nothing, everything is 0 (requested at n0). R2: n1 contributes bit 0, so the
//! least fixpoint of every member is 1. Requesting n3 first in R2 must return 1.
use salsa::Setter;

#[salsa::input]
struct In {
    #[returns(copy)]
    off: u32,
    #[returns(copy)]
    mask: u32,
}

fn init(_db: &dyn salsa::Database, _id: salsa::Id, _i: In) -> u32 { 0 }

#[salsa::tracked(returns(copy), cycle_initial = init)]
fn n0(db: &dyn salsa::Database, i: In) -> u32 { n1(db, i) }

#[salsa::tracked(returns(copy), cycle_initial = init)]
fn n1(db: &dyn salsa::Database, i: In) -> u32 {
    let mut acc = n4(db, i);
    if i.off(db) < 1 { acc |= 1; }
    acc
}

#[salsa::tracked(returns(copy), cycle_initial = init)]
fn n3(db: &dyn salsa::Database, i: In) -> u32 {
    let mut acc = n3(db, i);
    let m = i.mask(db);
    acc |= n4(db, i) & m;
    acc
}

#[salsa::tracked(returns(copy), cycle_initial = init)]
fn n4(db: &dyn salsa::Database, i: In) -> u32 { n0(db, i) | n3(db, i) }

#[test]
fn incremental() {
    let mut db = salsa::DatabaseImpl::new();
    let i = In::new(&db, 1, 0xFF);
    assert_eq!(n0(&db, i), 0);
    i.set_off(&mut db).to(0);
    assert_eq!(n3(&db, i), 1);
}

#[test]
fn from_scratch() {
    let db = salsa::DatabaseImpl::new();
    let i = In::new(&db, 0, 0xFF);
    assert_eq!(n3(&db, i), 1);
}

//! A fixpoint cycle p <-> q exists while x < 2. Participants of a cycle are never backdated, so
//! their memos carry the revision of the last write. When the cycle disappears and p recomputes
//! an equal value from older stamps, the backdate-violation debug assertion fired.
use salsa::Setter;

#[salsa::input]
struct In {
    #[returns(copy)]
    x: u32,
}

fn init(_db: &dyn salsa::Database, _id: salsa::Id, _i: In) -> u32 { 0 }

#[salsa::tracked(returns(copy), cycle_initial = init)]
fn p(db: &dyn salsa::Database, i: In) -> u32 { q(db, i) }

#[salsa::tracked(returns(copy), cycle_initial = init)]
fn q(db: &dyn salsa::Database, i: In) -> u32 {
    if i.x(db) < 2 { p(db, i) } else { 0 }
}

#[test]
fn cycle_then_no_cycle_with_equal_values() {
    let mut db = salsa::DatabaseImpl::new();
    let i = In::new(&db, 0);
    assert_eq!(q(&db, i), 0);
    assert_eq!(p(&db, i), 0);
    i.set_x(&mut db).to(1);
    assert_eq!(q(&db, i), 0);
    assert_eq!(p(&db, i), 0);
    i.set_x(&mut db).to(3);
    assert_eq!(q(&db, i), 0);
    assert_eq!(p(&db, i), 0);
}

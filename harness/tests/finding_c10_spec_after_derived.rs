use salsa::Setter;
use std::sync::{Arc, Mutex};

#[salsa::db]
#[derive(Clone)]
struct Db {
    storage: salsa::Storage<Self>,
    log: Arc<Mutex<Vec<String>>>,
}
#[salsa::db]
impl salsa::Database for Db {}
impl Db {
    fn new() -> Db {
        let log: Arc<Mutex<Vec<String>>> = Default::default();
        let l2 = log.clone();
        Db {
            storage: salsa::Storage::new(Some(Box::new(move |e| {
                if !matches!(e.kind, salsa::EventKind::WillCheckCancellation) {
                    l2.lock().unwrap().push(format!("{:?}", e.kind))
                }
            }))),
            log,
        }
    }
}

#[salsa::input]
struct In {
    #[returns(copy)]
    do_spec: bool,
}

#[salsa::tracked]
struct Ent<'db> {
    #[returns(copy)]
    id: u32,
}

#[salsa::tracked(returns(copy), specify)]
fn spec<'db>(_db: &'db dyn salsa::Database, _e: Ent<'db>) -> u32 {
    1
}

#[salsa::tracked(returns(copy))]
fn creator<'db>(db: &'db dyn salsa::Database, i: In) -> Ent<'db> {
    let e = Ent::new(db, 0);
    if i.do_spec(db) {
        spec::specify(db, e, 0);
    }
    e
}

#[salsa::tracked(returns(copy))]
fn consumer(db: &dyn salsa::Database, i: In) -> u32 {
    let e = creator(db, i);
    spec(db, e)
}

#[test]
fn specify_after_body_value_in_earlier_revision() {
    let mut db = Db::new();
    let i = In::new(&db, false);
    assert_eq!(consumer(&db, i), 1);
    i.set_do_spec(&mut db).to(true);
    db.log.lock().unwrap().clear();
    let v = consumer(&db, i);
    eprintln!("{:#?}", db.log.lock().unwrap());
    assert_eq!(v, 0, "creator specifies 0 in this revision");
}

// Reverse direction: the creator specified the value in R1 and stops doing so in R2. The body of
// `spec` reads nothing that changed, so the new computed memo carried an old stamp and the
// consumer was validated with the stale specified value.
#[salsa::tracked(returns(copy))]
fn creator_rev<'db>(db: &'db dyn salsa::Database, i: In) -> Ent<'db> {
    let e = Ent::new(db, 0);
    if !i.do_spec(db) {
        spec::specify(db, e, 0);
    }
    e
}

#[salsa::tracked(returns(copy))]
fn consumer_rev(db: &dyn salsa::Database, i: In) -> u32 {
    let e = creator_rev(db, i);
    spec(db, e)
}

#[test]
fn unspecify_after_specified_value_in_earlier_revision() {
    let mut db = Db::new();
    let i = In::new(&db, false);
    assert_eq!(consumer_rev(&db, i), 0);
    i.set_do_spec(&mut db).to(true);
    assert_eq!(consumer_rev(&db, i), 1, "creator no longer specifies: the computed value is 1");
}

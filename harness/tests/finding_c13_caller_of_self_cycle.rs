//! `b` is a self-cycle with cycle_result; `a` (also declared with cycle_result) merely calls `b`
//! and is outside every cycle, so it should return its body's value (= b's fallback).
fn fa(_db: &dyn salsa::Database, _id: salsa::Id) -> u32 { 100 }
fn fb(_db: &dyn salsa::Database, _id: salsa::Id) -> u32 { 200 }

#[salsa::tracked(returns(copy), cycle_result = fa)]
fn a(db: &dyn salsa::Database) -> u32 { b(db) }
#[salsa::tracked(returns(copy), cycle_result = fb)]
fn b(db: &dyn salsa::Database) -> u32 { b(db) + 1 }

#[salsa::tracked(returns(copy))]
fn plain_caller(db: &dyn salsa::Database) -> u32 { b(db) }

#[test]
fn b_first() {
    let db = salsa::DatabaseImpl::new();
    assert_eq!(b(&db), 200);
    assert_eq!(a(&db), 200);
}

#[test]
fn a_first() {
    let db = salsa::DatabaseImpl::new();
    assert_eq!(a(&db), 200);
    assert_eq!(b(&db), 200);
}

#[test]
fn plain_first() {
    let db = salsa::DatabaseImpl::new();
    assert_eq!(plain_caller(&db), 200);
}

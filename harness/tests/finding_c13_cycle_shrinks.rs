//! R1: a -> b -> {b, a}: both in one cycle. R2: b stops calling a (still a self-cycle): `a` is now
//! outside every cycle and must return its body value, b's fallback.
use salsa::Setter;
use std::sync::{Arc, Mutex};

#[salsa::db]
#[derive(Clone)]
struct Db {
    storage: salsa::Storage<Self>,
    log: Arc<Mutex<Vec<String>>>,
}
#[salsa::db]
impl salsa::Database for Db {}
impl Db {
    fn new() -> Db {
        let log: Arc<Mutex<Vec<String>>> = Default::default();
        let l2 = log.clone();
        Db { storage: salsa::Storage::new(Some(Box::new(move |e| { if !matches!(e.kind, salsa::EventKind::WillCheckCancellation) { l2.lock().unwrap().push(format!("{:?}", e.kind)) } }))), log }
    }
}


#[salsa::input]
struct In {
    #[returns(copy)]
    cut: bool,
}

fn fa(_db: &dyn salsa::Database, _id: salsa::Id, _i: In) -> u32 { 100 }
fn fb(_db: &dyn salsa::Database, _id: salsa::Id, _i: In) -> u32 { 200 }

#[salsa::tracked(returns(copy), cycle_result = fa)]
fn a(db: &dyn salsa::Database, i: In) -> u32 { b(db, i) }

#[salsa::tracked(returns(copy), cycle_result = fb)]
fn b(db: &dyn salsa::Database, i: In) -> u32 {
    let x = b(db, i);
    if i.cut(db) { x } else { x + a(db, i) }
}

#[salsa::tracked(returns(copy))]
fn caller(db: &dyn salsa::Database, i: In) -> u32 { a(db, i) }

#[test]
fn cycle_shrinks_incrementally() {
    let mut db = Db::new();
    let i = In::new(&db, false);
    assert_eq!(caller(&db, i), 100);
    eprintln!("R1 {:#?}", std::mem::take(&mut *db.log.lock().unwrap()));
    i.set_cut(&mut db).to(true);
    let v = caller(&db, i);
    eprintln!("R2 {:#?}", std::mem::take(&mut *db.log.lock().unwrap()));
    assert_eq!(v, 200);
}

#[test]
fn from_scratch() {
    let db = salsa::DatabaseImpl::new();
    let i = In::new(&db, true);
    assert_eq!(caller(&db, i), 200);
}

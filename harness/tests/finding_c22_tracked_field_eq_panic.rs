//! C22: a panic in the `PartialEq` of a tracked-struct field (called when the creating query
//! re-executes and salsa compares old and new field values) left the struct write-locked:
//! every later execution of the creator failed with "two concurrent writers to Id(..)".
use salsa::Setter;
use std::sync::atomic::{AtomicBool, Ordering};

static PANIC_IN_EQ: AtomicBool = AtomicBool::new(false);

#[derive(Clone, Copy, Debug)]
struct V(u32);
impl PartialEq for V {
    fn eq(&self, o: &V) -> bool {
        if PANIC_IN_EQ.load(Ordering::SeqCst) {
            panic!("user PartialEq panicked");
        }
        self.0 == o.0
    }
}

#[salsa::input]
struct In {
    #[returns(copy)]
    x: u32,
}

#[salsa::tracked]
struct Ent<'db> {
    #[returns(copy)]
    id: u32,
    #[tracked]
    #[returns(copy)]
    v: V,
}

#[salsa::tracked(returns(copy))]
fn creator(db: &dyn salsa::Database, i: In) -> u32 {
    let e = Ent::new(db, 0, V(i.x(db)));
    e.v(db).0
}

#[test]
fn panic_in_tracked_field_eq_then_retry() {
    let mut db = salsa::DatabaseImpl::new();
    let i = In::new(&db, 1);
    assert_eq!(creator(&db, i), 1);
    i.set_x(&mut db).to(2);
    PANIC_IN_EQ.store(true, Ordering::SeqCst);
    let r = std::panic::catch_unwind(std::panic::AssertUnwindSafe(|| creator(&db, i)));
    assert!(r.is_err());
    PANIC_IN_EQ.store(false, Ordering::SeqCst);
    // same revision, the panic no longer occurs: must behave like a fresh database
    assert_eq!(creator(&db, i), 2);
    i.set_x(&mut db).to(3);
    assert_eq!(creator(&db, i), 3);
}

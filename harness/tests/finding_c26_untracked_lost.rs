#![cfg(feature = "persist")]
//! C26 (known finding): a persisted function depends on a NON-persisted function that reads
//! untracked state; the flattened edges of the persisted memo keep no trace of the untracked read,
//! so the restored memo is never re-executed when that state changes.
use std::sync::atomic::{AtomicU32, Ordering};

static CELL: AtomicU32 = AtomicU32::new(1);

#[salsa::input(persist)]
struct In {
    #[returns(copy)]
    x: u32,
}

#[salsa::tracked(returns(copy))]
fn reads_cell(db: &dyn salsa::Database, _i: In) -> u32 {
    db.report_untracked_read();
    CELL.load(Ordering::SeqCst)
}

#[salsa::tracked(returns(copy), persist)]
fn outer(db: &dyn salsa::Database, i: In) -> u32 {
    reads_cell(db, i) + 10
}

#[test]
fn restored_memo_ignores_untracked_state() {
    use salsa::plumbing::ZalsaDatabase;
    use salsa::Database;
    let mut db = salsa::DatabaseImpl::new();
    let i = In::new(&db, 1);
    assert_eq!(outer(&db, i), 11);
    let json = serde_json::to_string(&<dyn salsa::Database>::as_serialize(&mut db)).unwrap();
    let mut db2 = salsa::DatabaseImpl::new();
    <dyn salsa::Database>::deserialize(&mut db2, &mut serde_json::Deserializer::from_str(&json)).unwrap();
    let i2 = In::ingredient(&db2).entries(db2.zalsa()).next().unwrap().as_struct();
    CELL.store(2, Ordering::SeqCst);
    db2.synthetic_write(salsa::Durability::LOW);
    assert_eq!(outer(&db2, i2), 12, "a fresh database returns 12");
}

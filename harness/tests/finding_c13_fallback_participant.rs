//! Three functions with `cycle_result` in a cycle a -> b -> c -> a. Requested a first; in a later
//! revision (unrelated write) b must still return *its* fallback.
use salsa::Setter;

#[salsa::input]
struct In {
    #[returns(copy)]
    unrelated: u32,
}

fn fa(_db: &dyn salsa::Database, _id: salsa::Id, _i: In) -> u32 { 100 }
fn fb(_db: &dyn salsa::Database, _id: salsa::Id, _i: In) -> u32 { 200 }
fn fc(_db: &dyn salsa::Database, _id: salsa::Id, _i: In) -> u32 { 300 }

#[salsa::tracked(returns(copy), cycle_result = fa)]
fn a(db: &dyn salsa::Database, i: In) -> u32 { b(db, i) }
#[salsa::tracked(returns(copy), cycle_result = fb)]
fn b(db: &dyn salsa::Database, i: In) -> u32 { c(db, i) }
#[salsa::tracked(returns(copy), cycle_result = fc)]
fn c(db: &dyn salsa::Database, i: In) -> u32 { a(db, i) }

#[test]
fn same_revision() {
    let db = salsa::DatabaseImpl::new();
    let i = In::new(&db, 0);
    assert_eq!(a(&db, i), 100);
    assert_eq!(b(&db, i), 200);
    assert_eq!(c(&db, i), 300);
}

#[test]
fn next_revision() {
    let mut db = salsa::DatabaseImpl::new();
    let i = In::new(&db, 0);
    assert_eq!(a(&db, i), 100);
    i.set_unrelated(&mut db).to(1);
    assert_eq!(a(&db, i), 100);
    assert_eq!(b(&db, i), 200);
    assert_eq!(c(&db, i), 300);
}

#![cfg(feature = "persist")]
//! C26: after a write, a snapshot taken before the creator was re-validated; in the restored
//! database the creator re-executes in the restore revision and drops its struct.
use salsa::Setter;

#[salsa::input(persist)]
struct In {
    #[returns(copy)]
    x: u32,
}

#[salsa::tracked(persist)]
struct Ent<'db> {
    #[returns(copy)]
    id: u32,
}

#[salsa::tracked(returns(copy), persist)]
fn on_ent<'db>(db: &'db dyn salsa::Database, e: Ent<'db>) -> u32 {
    e.id(db)
}

#[salsa::tracked(returns(copy), persist)]
fn creator(db: &dyn salsa::Database, i: In) -> u32 {
    let e = Ent::new(db, i.x(db));
    e.id(db)
}

#[test]
fn serialize_then_recreate_with_other_identity() {
    use salsa::plumbing::ZalsaDatabase;
    let mut db = salsa::DatabaseImpl::new();
    let i = In::new(&db, 1);
    assert_eq!(creator(&db, i), 1);
    i.set_x(&mut db).to(2);
    let json = serde_json::to_string(&<dyn salsa::Database>::as_serialize(&mut db)).unwrap();
    eprintln!("{json}");
    let mut db2 = salsa::DatabaseImpl::new();
    <dyn salsa::Database>::deserialize(&mut db2, &mut serde_json::Deserializer::from_str(&json)).unwrap();
    let i2 = In::ingredient(&db2).entries(db2.zalsa()).next().unwrap().as_struct();
    assert_eq!(creator(&db2, i2), 2);
}

#[test]
fn original_database_after_serialize() {
    let mut db = salsa::DatabaseImpl::new();
    let i = In::new(&db, 1);
    assert_eq!(creator(&db, i), 1);
    i.set_x(&mut db).to(2);
    let _json = serde_json::to_string(&<dyn salsa::Database>::as_serialize(&mut db)).unwrap();
    assert_eq!(creator(&db, i), 2);
}

#![cfg(not(feature = "shuttle"))]

//! Real-thread variant of `side_C18.rs`: the same program, the interleaving is forced with
//! signals (no shuttle). On unmodified salsa thread T1 panics with
//! `Can't merge cycle heads eval(..) with different iterations`.
//!
//! Run with: `cargo test --offline --test side_C18_threads`

use std::cell::Cell;
use std::collections::HashMap;
use std::sync::atomic::{AtomicUsize, Ordering};
use std::sync::{Arc, Condvar, Mutex};
use std::time::Duration;

use salsa::{Database, Storage};

const MAX: u32 = 4;

#[derive(Default)]
struct Signal {
    value: Mutex<usize>,
    cond_var: Condvar,
}

impl Signal {
    fn signal(&self, stage: usize) {
        let mut v = self.value.lock().unwrap();
        if stage > *v {
            *v = stage;
            self.cond_var.notify_all();
        }
    }

    /// Waits for `stage`, but gives up after a while so that a fixed salsa doesn't hang here.
    fn wait_for(&self, stage: usize) {
        let mut v = self.value.lock().unwrap();
        let mut rounds = 0;
        while *v < stage && rounds < 30 {
            let (guard, _) = self
                .cond_var
                .wait_timeout(v, Duration::from_millis(100))
                .unwrap();
            v = guard;
            rounds += 1;
        }
    }
}

thread_local! {
    /// 1, 2, 3 for the three worker threads.
    static WHO: Cell<u32> = const { Cell::new(0) };
}

#[salsa::db]
trait HookDatabase: Database {
    fn signal(&self, stage: usize);
    fn wait_for(&self, stage: usize);
    /// How often node `n` has been executed by thread `who` (including this execution).
    fn count(&self, who: u32, n: u32) -> usize;
    fn blocked(&self) -> usize;
    fn wait_blocked(&self, n: usize);
}

#[salsa::db]
#[derive(Clone)]
struct Hooks {
    storage: Storage<Self>,
    signal: Arc<Signal>,
    /// Number of `WillBlockOn` events so far, also published through `blocked_signal`.
    blocked: Arc<AtomicUsize>,
    blocked_signal: Arc<Signal>,
    counts: Arc<Mutex<HashMap<(u32, u32), usize>>>,
}

impl Default for Hooks {
    fn default() -> Self {
        let signal = <Arc<Signal>>::default();
        let blocked_signal = <Arc<Signal>>::default();
        let blocked = Arc::new(AtomicUsize::new(0));
        Self {
            storage: Storage::new(Some(Box::new({
                let signal = blocked_signal.clone();
                let blocked = blocked.clone();
                move |event| {
                    if let salsa::EventKind::WillBlockOn { .. } = event.kind {
                        let n = blocked.fetch_add(1, Ordering::SeqCst) + 1;
                        if std::env::var("SIDE_C18_TRACE").is_ok() {
                            eprintln!("T{} will block: {:?}", WHO.get(), event.kind);
                        }
                        signal.signal(n);
                    }
                }
            }))),
            signal,
            blocked,
            blocked_signal,
            counts: Default::default(),
        }
    }
}

#[salsa::db]
impl salsa::Database for Hooks {}

#[salsa::db]
impl HookDatabase for Hooks {
    fn signal(&self, stage: usize) {
        self.signal.signal(stage);
    }
    fn wait_for(&self, stage: usize) {
        self.signal.wait_for(stage);
    }
    fn count(&self, who: u32, n: u32) -> usize {
        let mut counts = self.counts.lock().unwrap();
        let c = counts.entry((who, n)).or_default();
        *c += 1;
        *c
    }
    fn blocked(&self) -> usize {
        self.blocked.load(Ordering::SeqCst)
    }
    fn wait_blocked(&self, n: usize) {
        self.blocked_signal.wait_for(n);
    }
}

#[derive(Clone, Debug, PartialEq, Eq, Hash)]
struct Edge {
    target: u32,
    add: u32,
    guard: u32,
}

#[derive(Clone, Debug, PartialEq, Eq, Hash)]
struct NodeDef {
    base: u32,
    edges: Vec<Edge>,
}

#[salsa::input]
struct Prog {
    #[returns(ref)]
    nodes: Vec<NodeDef>,
}

// Stages:
//   1: T2 executes node 1 (owns it)
//   2: T3 executes node 3 (owns it)
//   3: T3 executes node 0 (owns it)
//   (blocked count 1, 2: T2 is blocked on node 3, T1 on node 0)
//   5: T1 executes node 0 (after having been woken up)
fn hook(db: &dyn HookDatabase, n: u32) {
    let who = WHO.get();
    let count = db.count(who, n);
    if std::env::var("SIDE_C18_TRACE").is_ok() {
        eprintln!("T{who} executes node {n} (#{count}), blocked so far: {}", db.blocked());
    }
    match (who, n, count) {
        // T2 owns node 1; wait until T3 owns node 3, so that T2 blocks on it.
        (2, 1, 1) => {
            db.signal(1);
            db.wait_for(2);
        }
        // T3 owns node 3: let T2 block on it.
        (3, 3, 1) => {
            db.signal(2);
            db.wait_blocked(1);
        }
        // T3 owns node 0: let T1 block on it.
        (3, 0, 1) => {
            db.signal(3);
            db.wait_blocked(2);
        }
        // T2 starts the next iteration of node 3: wait until T1 is blocked on it.
        (2, 3, 2) => {
            db.signal(7);
            db.wait_blocked(3);
        }
        _ => {}
    }
}

/// Called after `eval(target)` returned to the body of node `n`.
fn after_call(db: &dyn HookDatabase, n: u32, target: u32) {
    match (WHO.get(), n, target) {
        // T2 iterates node 3 and has just finalized node 2 (which has become a cycle of its own).
        // Completing node 2 woke up T1. Before T2 finishes this iteration of node 3, let T1 claim
        // and re-execute node 0 up to the point where it has read its own provisional value.
        (2, 3, 2) => db.wait_for(6),
        // T1 has read the provisional value of node 0. Let T2 finish its iteration of node 3 and
        // start the next one before continuing with (and blocking on) node 3.
        (1, 0, 0) => {
            db.signal(6);
            db.wait_for(7);
        }
        _ => {}
    }
}

#[salsa::tracked(returns(copy), cycle_initial=initial)]
fn eval(db: &dyn HookDatabase, prog: Prog, n: u32) -> u32 {
    hook(db, n);
    let def = &prog.nodes(db)[n as usize];
    let mut acc = def.base;
    for e in &def.edges {
        if acc >= MAX {
            break;
        }
        if acc >= e.guard {
            let v = eval(db, prog, e.target);
            after_call(db, n, e.target);
            acc = acc.max((v + e.add).min(MAX));
        }
    }
    acc
}

fn initial(_db: &dyn HookDatabase, _id: salsa::Id, _prog: Prog, _n: u32) -> u32 {
    0
}

fn e(target: u32, add: u32, guard: u32) -> Edge {
    Edge { target, add, guard }
}

fn program() -> Vec<NodeDef> {
    vec![
        NodeDef {
            base: 1,
            edges: vec![e(1, 1, 2), e(0, 0, 0), e(3, 0, 0)],
        },
        NodeDef {
            base: 1,
            edges: vec![e(3, 2, 0), e(2, 0, 0)],
        },
        NodeDef {
            base: 0,
            edges: vec![e(2, 0, 1), e(2, 2, 0), e(3, 0, 1)],
        },
        NodeDef {
            base: 0,
            edges: vec![e(0, 0, 0), e(2, 0, 0), e(1, 1, 1)],
        },
    ]
}

#[test]
fn three_threads_signalled() {
    // Abort instead of hanging forever.
    std::thread::spawn(|| {
        std::thread::sleep(Duration::from_secs(60));
        eprintln!("side_C18_threads: timeout");
        std::process::exit(1);
    });

    let db = Hooks::default();
    let prog = Prog::new(&db, program());
    // Least fixpoint of the program.
    let expected = [4u32, 4, 4, 4];

    let spawn = |who: u32, entries: Vec<u32>, start_stage: usize| {
        let db = db.clone();
        std::thread::spawn(move || {
            WHO.set(who);
            db.wait_for(start_stage);
            entries
                .into_iter()
                .map(|n| (n, eval(&db, prog, n)))
                .collect::<Vec<_>>()
        })
    };

    // T2 enters at node 1 first, T3 at node 2 once T2 owns node 1, T1 at node 0 once T3 owns it.
    let t2 = spawn(2, vec![1], 0);
    let t3 = spawn(3, vec![2, 1], 1);
    let t1 = spawn(1, vec![0], 3);

    for (name, t) in [("T1", t1), ("T2", t2), ("T3", t3)] {
        let results = t
            .join()
            .unwrap_or_else(|_| panic!("{name} panicked (see the panic message above)"));
        for (n, v) in results {
            assert_eq!(v, expected[n as usize], "{name}: node {n}");
        }
    }
}

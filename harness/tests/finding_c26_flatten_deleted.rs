#![cfg(feature = "persist")]
//! C26 (known finding): a persisted memo that is not verified in the snapshot revision depends,
//! through a non-persisted function, on a function keyed by a tracked struct. The struct has been
//! deleted since (its creator re-executed), but the non-persisted function's memo still lists the
//! edge; flattening looks that function's memo up, which read-locks the deleted struct:
//! serialization panics with "write lock taken".

#[salsa::input(persist)]
struct In {
    #[returns(copy)]
    flag: bool,
}

#[salsa::tracked(persist)]
struct Ent<'db> {
    #[returns(copy)]
    x: u32,
}

#[salsa::tracked(returns(copy), persist)]
fn on_ent<'db>(db: &'db dyn salsa::Database, e: Ent<'db>) -> u32 {
    e.x(db) + 1
}

#[salsa::tracked(returns(copy), persist)]
fn creator<'db>(db: &'db dyn salsa::Database, i: In) -> Option<Ent<'db>> {
    if i.flag(db) { Some(Ent::new(db, 1)) } else { None }
}

#[salsa::tracked(returns(copy))]
fn mid(db: &dyn salsa::Database, i: In) -> u32 {
    creator(db, i).map(|e| on_ent(db, e)).unwrap_or(0)
}

#[salsa::tracked(returns(copy), persist)]
fn top(db: &dyn salsa::Database, i: In) -> u32 {
    mid(db, i)
}

#[test]
fn serialize_after_struct_deletion_with_stale_dependant() {
    use salsa::Setter;
    let mut db = salsa::DatabaseImpl::new();
    let i = In::new(&db, true);
    assert_eq!(top(&db, i), 2);
    i.set_flag(&mut db).to(false);
    // the creator re-executes and deletes the struct; `top` and `mid` stay unverified
    assert!(creator(&db, i).is_none());
    let r = std::panic::catch_unwind(std::panic::AssertUnwindSafe(|| serde_json::to_string(&<dyn salsa::Database>::as_serialize(&mut db)).unwrap()));
    assert!(r.is_ok(), "serialization panicked");
}

#[test]
fn control_everything_verified() {
    use salsa::Setter;
    let mut db = salsa::DatabaseImpl::new();
    let i = In::new(&db, true);
    assert_eq!(top(&db, i), 2);
    i.set_flag(&mut db).to(false);
    assert_eq!(top(&db, i), 0);
    serde_json::to_string(&<dyn salsa::Database>::as_serialize(&mut db)).unwrap();
}

//! Standalone reproduction (public salsa API only) of the C10 finding: a creator that, after an
//! input change, calls the specifiable function on its struct *before* specifying it trips the
//! backdate-violation debug assertion when the computed value equals the value it specified in
//! the previous revision.
use salsa::Setter;

#[salsa::input]
struct In {
    #[returns(copy)]
    call_first: bool,
    #[returns(copy)]
    x: u32,
}

#[salsa::tracked]
struct Ent<'db> {
    #[returns(copy)]
    id: u32,
}

#[salsa::tracked(returns(copy), specify)]
fn spec<'db>(_db: &'db dyn salsa::Database, _e: Ent<'db>) -> u32 {
    7
}

#[salsa::tracked(returns(copy))]
fn reads_x(db: &dyn salsa::Database, i: In) -> u32 {
    i.x(db)
}

#[salsa::tracked(returns(copy))]
fn creator(db: &dyn salsa::Database, i: In) -> u32 {
    let e = Ent::new(db, 0);
    let mut r = 0;
    if i.call_first(db) {
        r = spec(db, e); // computed value wins this revision
    }
    let _ = reads_x(db, i);
    spec::specify(db, e, 7);
    r + spec(db, e)
}

#[test]
fn computed_value_equal_to_previously_specified_value() {
    let mut db = salsa::DatabaseImpl::new();
    let i = In::new(&db, false, 0);
    i.set_x(&mut db).to(1); // R2: the specified memo's changed_at becomes R2 (via reads_x)
    assert_eq!(creator(&db, i), 7);
    i.set_call_first(&mut db).to(true); // R3
    assert_eq!(creator(&db, i), 14);
}

// Reverse direction: the function body computed the value in an earlier revision (Derived memo
// stamped with the body's own, recently changed, input); later the creator specifies an equal
// value while its own dependencies are older.
#[salsa::input]
struct In2 {
    #[returns(copy)]
    do_spec: bool,
    #[returns(copy)]
    y: u32,
}

#[salsa::tracked]
struct Ent2<'db> {
    #[returns(copy)]
    inp: In2,
}

#[salsa::tracked(returns(copy), specify)]
fn spec2<'db>(db: &'db dyn salsa::Database, e: Ent2<'db>) -> u32 {
    e.inp(db).y(db).min(7).max(7)
}

#[salsa::tracked(returns(copy))]
fn creator2<'db>(db: &'db dyn salsa::Database, i: In2) -> Ent2<'db> {
    let e = Ent2::new(db, i);
    if i.do_spec(db) {
        spec2::specify(db, e, 7);
    }
    e
}

#[test]
fn specified_value_equal_to_previously_computed_value() {
    let mut db = salsa::DatabaseImpl::new();
    let i = In2::new(&db, true, 0);
    let e = creator2(&db, i);
    assert_eq!(spec2(&db, e), 7);
    i.set_do_spec(&mut db).to(false); // R2
    let e = creator2(&db, i);
    assert_eq!(spec2(&db, e), 7);
    i.set_y(&mut db).to(1); // R3
    let e = creator2(&db, i);
    assert_eq!(spec2(&db, e), 7); // body re-executes, y changed at R3
    i.set_do_spec(&mut db).with_durability(salsa::Durability::LOW).to(true); // R4
    let e = creator2(&db, i);
    assert_eq!(spec2(&db, e), 7);
}

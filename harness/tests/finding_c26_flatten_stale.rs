#![cfg(feature = "persist")]
//! C26 (known finding): a persisted memo that is NOT verified in the snapshot revision depends on
//! a non-persisted function which re-executed since (its interned value had been reclaimed and was
//! interned again under a new id). Serialization flattens the memo's edges to the dependency's
//! *current* inputs, so the restored memo validates although the value it holds (the reclaimed id)
//! is stale; the original database re-executes it.

/// constant hash: every value lands in the same shard (slots are only reused within a shard)
#[derive(Clone, Copy, Debug, PartialEq, Eq, serde::Serialize, serde::Deserialize)]
struct V(u32);
impl std::hash::Hash for V {
    fn hash<H: std::hash::Hasher>(&self, s: &mut H) {
        s.write_i16(0)
    }
}

#[salsa::interned(revisions = 1, persist, debug)]
struct Sym<'db> {
    #[returns(copy)]
    x: V,
}

#[salsa::input(persist)]
struct In {
    #[returns(copy)]
    x: u32,
}

#[salsa::tracked(returns(copy))]
fn mk<'db>(db: &'db dyn salsa::Database, i: In) -> Sym<'db> {
    Sym::new(db, V(i.x(db)))
}

#[salsa::tracked(returns(copy), persist)]
fn outer<'db>(db: &'db dyn salsa::Database, i: In) -> Sym<'db> {
    mk(db, i)
}

fn history(db: &mut salsa::DatabaseImpl) -> (In, In) {
    use salsa::Database;
    let i0 = In::new(db, 1);
    let i1 = In::new(db, 0);
    // garbage collection of interned values starts after the first revision
    db.synthetic_write(salsa::Durability::LOW);
    assert_eq!(outer(db, i1).x(db).0, 0);
    eprintln!("A = {:?}", salsa::plumbing::AsId::as_id(&outer(db, i1)));
    db.synthetic_write(salsa::Durability::HIGH);
    // reuses the slot of Sym(0), which nobody has re-validated in this revision
    assert_eq!(outer(db, i0).x(db).0, 1);
    eprintln!("B = {:?}", salsa::plumbing::AsId::as_id(&outer(db, i0)));
    // mk(i1) re-executes (its interned value was reclaimed) and interns Sym(0) under a new id;
    // outer(i1) is left unverified
    assert_eq!(mk(db, i1).x(db).0, 0);
    eprintln!("A' = {:?}", salsa::plumbing::AsId::as_id(&mk(db, i1)));
    (i0, i1)
}

#[test]
fn original_database_reexecutes() {
    let mut db = salsa::DatabaseImpl::new();
    let (_, i1) = history(&mut db);
    assert_eq!(outer(&db, i1).x(&db).0, 0);
}

#[test]
fn restored_memo_keeps_reclaimed_id() {
    use salsa::plumbing::ZalsaDatabase;
    let mut db = salsa::DatabaseImpl::new();
    history(&mut db);
    let json = serde_json::to_string(&<dyn salsa::Database>::as_serialize(&mut db)).unwrap();
    let mut db2 = salsa::DatabaseImpl::new();
    <dyn salsa::Database>::deserialize(&mut db2, &mut serde_json::Deserializer::from_str(&json)).unwrap();
    let ins: Vec<In> = In::ingredient(&db2).entries(db2.zalsa()).map(|e| e.as_struct()).collect();
    let i1 = ins.into_iter().find(|i| i.x(&db2) == 0).unwrap();
    assert_eq!(outer(&db2, i1).x(&db2).0, 0, "outer(i1) is Sym(0) in the original database");
}

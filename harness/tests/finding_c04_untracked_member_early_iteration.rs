//! C04 / C12 (known finding): in a fixpoint cycle, a member that is NOT the cycle head reads
//! untracked state only while its provisional value is still small, i.e. in an early iteration.
//! Its final memo and the head's flattened dependencies keep no trace of the read: after the
//! untracked state changed (and a new revision started) the cycle is validated and returns the old
//! value. Entered through the reading function itself (then it is the head) the result is correct.
use std::sync::atomic::{AtomicU32, Ordering};

static CELL: AtomicU32 = AtomicU32::new(1);

#[salsa::input]
struct In {
    #[returns(copy)]
    x: u32,
}

fn initial(_db: &dyn salsa::Database, _id: salsa::Id, _i: In) -> u32 {
    0
}

/// `reader = max(other, cell)` where the cell is only looked at while the value is still 0
#[salsa::tracked(returns(copy), cycle_initial = initial)]
fn reader(db: &dyn salsa::Database, i: In) -> u32 {
    let mut acc = other(db, i);
    if acc < 1 {
        db.report_untracked_read();
        acc = acc.max(CELL.load(Ordering::SeqCst).min(1));
    }
    acc
}

#[salsa::tracked(returns(copy), cycle_initial = initial)]
fn other(db: &dyn salsa::Database, i: In) -> u32 {
    reader(db, i)
}

/// same without the condition: the member reads the cell in every iteration
#[salsa::tracked(returns(copy), cycle_initial = initial)]
fn reader2(db: &dyn salsa::Database, i: In) -> u32 {
    db.report_untracked_read();
    other2(db, i).max(CELL.load(Ordering::SeqCst))
}

#[salsa::tracked(returns(copy), cycle_initial = initial)]
fn other2(db: &dyn salsa::Database, i: In) -> u32 {
    reader2(db, i)
}

fn run2(enter_at_reader: bool) -> u32 {
    use salsa::Database;
    CELL.store(1, Ordering::SeqCst);
    let mut db = salsa::DatabaseImpl::new();
    let i = In::new(&db, 0);
    let first = if enter_at_reader { reader2(&db, i) } else { other2(&db, i) };
    assert_eq!(first, 1);
    CELL.store(0, Ordering::SeqCst);
    db.synthetic_write(salsa::Durability::LOW);
    if enter_at_reader { reader2(&db, i) } else { other2(&db, i) }
}

fn run(enter_at_reader: bool) -> u32 {
    use salsa::Database;
    CELL.store(1, Ordering::SeqCst);
    let mut db = salsa::DatabaseImpl::new();
    let i = In::new(&db, 0);
    let first = if enter_at_reader { reader(&db, i) } else { other(&db, i) };
    assert_eq!(first, 1);
    CELL.store(0, Ordering::SeqCst);
    db.synthetic_write(salsa::Durability::LOW);
    if enter_at_reader { reader(&db, i) } else { other(&db, i) }
}

// the two tests share CELL: run them one after the other
#[test]
fn both_entries() {
    assert_eq!(run(true), 0, "entered at the reading function (it is the cycle head): correct");
    assert_eq!(run2(true), 0, "unconditional read, entered at the reading function: correct");
    let member_every_iteration = run2(false);
    let member_early_only = run(false);
    assert_eq!((member_every_iteration, member_early_only), (0, 0), "entered at the other function (the reader is a plain member): a fresh database returns 0 in both variants");
}

use std::process::exit;

use vh::drive::*;
use vh::props;

fn arg<'a>(args: &'a [String], name: &str) -> Option<&'a str> {
    args.iter().position(|a| a == name).and_then(|i| args.get(i + 1)).map(|s| s.as_str())
}

#[global_allocator]
static ALLOC: vh::memsafe::CountingAlloc = vh::memsafe::CountingAlloc;

fn finish(sum: &Summary, out: Option<&str>) -> ! {
    let js = serde_json::to_string(sum).unwrap();
    match out {
        Some(p) => std::fs::write(p, js).unwrap(),
        None => {
            let mut brief = sum.clone();
            let nt = brief.nontrivial_hashes.len();
            brief.nontrivial_hashes.clear();
            brief.samples.truncate(1);
            println!("{}", serde_json::to_string_pretty(&brief).unwrap());
            println!("nontrivial distinct: {nt}");
        }
    }
    if sum.harness_error.is_some() {
        exit(2);
    }
    if !sum.violations.is_empty() {
        exit(1);
    }
    exit(0)
}

fn main() {
    install_quiet_panic_hook();
    let args: Vec<String> = std::env::args().collect();
    let cmd = args.get(1).map(|s| s.as_str()).unwrap_or("");
    match cmd {
        "run" => {
            let prop = args.get(2).expect("property id");
            let engine = arg(&args, "--engine").unwrap_or("seq");
            if engine == "enc" {
                let cases: u32 = arg(&args, "--cases").map(|s| s.parse().unwrap()).unwrap_or(1000);
                let seed: u64 = arg(&args, "--seed").map(|s| s.parse().unwrap()).unwrap_or(1);
                let replay_dir = arg(&args, "--replay-dir").unwrap_or("/verif/replays");
                let shard: u32 = arg(&args, "--shard").map(|s| s.parse().unwrap()).unwrap_or(0);
                let nshards: u32 = arg(&args, "--nshards").map(|s| s.parse().unwrap()).unwrap_or(1);
                let ex = arg(&args, "--exhaustive").map(|s| s != "0").unwrap_or(false);
                let sum = vh::enc::run_enc(cases, seed, replay_dir, if ex { Some((shard, nshards)) } else { None });
                finish(&sum, arg(&args, "--out"));
            }
            #[cfg(not(feature = "shuttle"))]
            if engine == "coop" {
                use vh::coop::*;
                let cases: u32 = arg(&args, "--cases").map(|s| s.parse().unwrap()).unwrap_or(100);
                let seed: u64 = arg(&args, "--seed").map(|s| s.parse().unwrap()).unwrap_or(1);
                let replay_dir = arg(&args, "--replay-dir").unwrap_or("/verif/replays");
                let known: Vec<String> = arg(&args, "--known").map(|s| s.split(',').filter(|x| !x.is_empty()).map(|x| x.to_string()).collect()).unwrap_or_default();
                let spec = vh::gdrive::GSpec::<CoopCase> {
                    property: prop,
                    engine: "coop",
                    config: "std",
                    tape_len: 420,
                    max_shrink_iters: 600,
                    decode: &|t| gen_coop_case(t, prop),
                    run: &|c| run_coop_case(prop, c),
                    size: &|c| c.prog.nodes.len() + c.plans.iter().map(|p| p.len()).sum::<usize>(),
                };
                let sum = vh::gdrive::gdrive(&spec, cases, seed, replay_dir, &known);
                finish(&sum, arg(&args, "--out"));
            }
            #[cfg(feature = "shuttle")]
            if engine == "shut" {
                use vh::shut::*;
                let cases: u32 = arg(&args, "--cases").map(|s| s.parse().unwrap()).unwrap_or(100);
                let seed: u64 = arg(&args, "--seed").map(|s| s.parse().unwrap()).unwrap_or(1);
                let replay_dir = arg(&args, "--replay-dir").unwrap_or("/verif/replays");
                let schedules: u32 = arg(&args, "--schedules").map(|s| s.parse().unwrap()).unwrap_or(100);
                let known: Vec<String> = arg(&args, "--known").map(|s| s.split(',').filter(|x| !x.is_empty()).map(|x| x.to_string()).collect()).unwrap_or_default();
                let which = which_of(prop).unwrap_or_else(|| {
                    eprintln!("property {prop} has no shuttle part");
                    exit(2)
                });
                let spec = vh::gdrive::GSpec::<ShutCase> {
                    property: prop,
                    engine: "shut",
                    config: "shuttle",
                    tape_len: 260,
                    max_shrink_iters: 200,
                    decode: &|t| gen_shut_case(t, which, schedules),
                    run: &|c| {
                        let mut o = run_shut_case(which, c);
                        o.violations.retain(|v| rule_belongs(prop, &v.rule));
                        o
                    },
                    size: &|c| c.prog.nodes.len() + c.phase1.iter().map(|p| p.len()).sum::<usize>(),
                };
                let sum = vh::gdrive::gdrive(&spec, cases, seed, replay_dir, &known);
                finish(&sum, arg(&args, "--out"));
            }
            let spec = props::spec_for(prop, engine).unwrap_or_else(|| {
                eprintln!("unknown property/engine {prop}/{engine}");
                exit(2)
            });
            let cases: u32 = arg(&args, "--cases").map(|s| s.parse().unwrap()).unwrap_or(1000);
            let seed: u64 = arg(&args, "--seed").map(|s| s.parse().unwrap()).unwrap_or(1);
            let out = arg(&args, "--out");
            let replay_dir = arg(&args, "--replay-dir").unwrap_or("/verif/replays");
            let known: Vec<String> = arg(&args, "--known").map(|s| s.split(',').filter(|x| !x.is_empty()).map(|x| x.to_string()).collect()).unwrap_or_default();
            let sum = run_prop(&spec, cases, seed, replay_dir, &known);
            finish(&sum, out);
        }
        "gen-corpus" => {
            // vh gen-corpus <hist|edges> <dir> <n> <seed>: write n tapes whose decoded case is
            // non-trivial, as little-endian bytes (seed corpus of the libFuzzer targets)
            let target = args.get(2).expect("target");
            let dir = args.get(3).expect("dir");
            let n: usize = args.get(4).map(|s| s.parse().unwrap()).unwrap_or(100);
            let mut st: u64 = args.get(5).map(|s| s.parse().unwrap()).unwrap_or(1);
            std::fs::create_dir_all(dir).unwrap();
            let mut written = 0;
            let mut tries = 0;
            while written < n && tries < 200 * n {
                tries += 1;
                let len = 40 + (vh::tape::splitmix(&mut st) % 360) as usize;
                let tape: Vec<u32> = (0..len).map(|_| vh::tape::splitmix(&mut st) as u32).collect();
                let keep = if target == "edges" {
                    vh::enc::gen_enc_case(&tape).nontrivial()
                } else {
                    let (_, out) = vh::memsafe::run_tape(&tape);
                    out.violations.is_empty() && out.labels.contains(&"nontrivial")
                };
                if keep {
                    let bytes: Vec<u8> = tape.iter().flat_map(|w| w.to_le_bytes()).collect();
                    std::fs::write(format!("{dir}/seed-{written:03}"), bytes).unwrap();
                    written += 1;
                }
            }
            println!("wrote {written} corpus files after {tries} tries");
        }
        "replay" => {
            let path = args.get(2).expect("replay file");
            let generic: serde_json::Value = serde_json::from_str(&std::fs::read_to_string(path).unwrap()).unwrap();
            // the case was found by a worker pinned to one core: salsa then uses a single shard per
            // ingredient, which decides whether interned slots are reclaimed. Re-create that.
            if generic.get("ncpu").and_then(|n| n.as_u64()) == Some(1) && vh::drive::ncpu() > 1 && std::env::var_os("VH_REPINNED").is_none() {
                let st = std::process::Command::new("taskset").arg("-c").arg("0").arg(std::env::current_exe().unwrap()).args(&args[1..]).env("VH_REPINNED", "1").status();
                match st {
                    Ok(st) => exit(st.code().unwrap_or(2)),
                    Err(e) => eprintln!("taskset unavailable ({e}); replaying unpinned"),
                }
            }
            if generic.get("engine").and_then(|e| e.as_str()) == Some("enc") {
                match vh::enc::replay(path) {
                    Ok(v) => {
                        for x in &v {
                            println!("violation rule={} step={} {}", x.rule, x.step, x.detail);
                        }
                        if v.is_empty() {
                            println!("no violation");
                            exit(0);
                        }
                        exit(1);
                    }
                    Err(e) => {
                        eprintln!("{e}");
                        exit(2);
                    }
                }
            }
            #[cfg(not(feature = "shuttle"))]
            if generic.get("engine").and_then(|e| e.as_str()) == Some("coop") {
                use vh::coop::*;
                let prop = generic.get("property").and_then(|e| e.as_str()).unwrap_or("C20").to_string();
                match vh::gdrive::greplay::<CoopCase>(path, &|c| run_coop_case(&prop, c)) {
                    Ok(v) => {
                        for x in &v {
                            println!("violation rule={} step={} {}", x.rule, x.step, x.detail);
                        }
                        if v.is_empty() {
                            println!("no violation");
                            exit(0);
                        }
                        exit(1);
                    }
                    Err(e) => {
                        eprintln!("{e}");
                        exit(2);
                    }
                }
            }
            #[cfg(feature = "shuttle")]
            if generic.get("engine").and_then(|e| e.as_str()) == Some("shut") {
                use vh::shut::*;
                let prop = generic.get("property").and_then(|e| e.as_str()).unwrap_or("C16").to_string();
                let which = which_of(&prop).expect("shuttle property");
                match vh::gdrive::greplay::<ShutCase>(path, &|c| {
                    let mut o = run_shut_case(which, c);
                    o.violations.retain(|v| rule_belongs(&prop, &v.rule));
                    o
                }) {
                    Ok(v) => {
                        for x in &v {
                            println!("violation rule={} step={} {}", x.rule, x.step, x.detail);
                        }
                        if v.is_empty() {
                            println!("no violation");
                            exit(0);
                        }
                        exit(1);
                    }
                    Err(e) => {
                        eprintln!("{e}");
                        exit(2);
                    }
                }
            }
            let rp: Replay = serde_json::from_str(&std::fs::read_to_string(path).unwrap()).unwrap();
            let spec = props::spec_for(&rp.property, &rp.engine).expect("property/engine");
            match run_one(&spec, &rp.case) {
                Ok(out) => {
                    for v in &out.violations {
                        println!("violation rule={} step={} {}", v.rule, v.step, v.detail);
                    }
                    if out.violations.is_empty() {
                        println!("no violation");
                        exit(0);
                    }
                    exit(1);
                }
                Err(e) => {
                    eprintln!("{e}");
                    exit(2);
                }
            }
        }
        _ => {
            eprintln!("usage: vh run <prop> [--cases N --seed S --out file] | vh replay <file>");
            exit(2);
        }
    }
}

//! proptest-driven loop for the `seq` engine: generate tapes, decode, run, classify, shrink.

use std::collections::{BTreeMap, BTreeSet};
use std::panic::{AssertUnwindSafe, catch_unwind};

use proptest::prelude::*;
use proptest::test_runner::{Config, RngAlgorithm, RngSeed, TestCaseError, TestError, TestRunner};
use serde::{Deserialize, Serialize};

use crate::prog::*;
use crate::props::PropSpec;
use crate::seq::*;

#[derive(Clone, Debug, Serialize, Deserialize)]
pub struct Replay {
    pub property: String,
    pub engine: String,
    pub seed: u64,
    pub tape: Vec<u32>,
    pub case: Case,
    pub violations: Vec<Violation>,
    #[serde(default)]
    pub extra: serde_json::Value,
    /// cores visible to the process that found the case (salsa sizes its shard arrays from it, so
    /// slot reuse of interned values depends on it); `vh replay` re-creates it
    #[serde(default)]
    pub ncpu: u32,
}

pub fn ncpu() -> u32 {
    std::thread::available_parallelism().map(|n| n.get() as u32).unwrap_or(1)
}

#[derive(Clone, Debug, Default, Serialize, Deserialize)]
pub struct Summary {
    pub property: String,
    pub engine: String,
    pub seed: u64,
    pub cases: u64,
    pub steps: u64,
    pub nontrivial_hashes: Vec<u64>,
    pub distinct_cases: u64,
    pub labels: BTreeMap<String, u64>,
    pub samples: Vec<serde_json::Value>,
    pub violations: Vec<Violation>,
    pub replay: Option<String>,
    pub harness_error: Option<String>,
    pub wall_s: f64,
    #[serde(default)]
    pub extra: BTreeMap<String, u64>,
}

/// message of the first panic since the slot was last cleared (shuttle engine: a panic caught
/// inside a task leaves shuttle's own primitives in an inconsistent state, every later panic or
/// deadlock of that execution is a consequence)
pub static FIRST_PANIC: std::sync::Mutex<Option<String>> = std::sync::Mutex::new(None);

pub fn install_quiet_panic_hook() {
    std::panic::set_hook(Box::new(|info| {
        if let Ok(mut g) = FIRST_PANIC.try_lock() {
            if g.is_none() {
                *g = Some(info.to_string());
            }
        }
        if std::env::var_os("VH_PANIC_TRACE").is_some() {
            eprintln!("[panic] {info}");
            if std::env::var_os("VH_PANIC_BT").is_some() {
                eprintln!("{}", std::backtrace::Backtrace::force_capture());
            }
        }
    }));
}

/// Run one decoded case through the property's oracles. Err(msg) = the harness itself panicked.
pub fn decode_case(spec: &PropSpec, tape: &[u32]) -> Case {
    match spec.decode {
        Some(d) => d(tape),
        None => gen_case(tape, &spec.profile),
    }
}

pub fn run_one(spec: &PropSpec, case: &Case) -> Result<SeqOutcome, String> {
    if let Some(runner) = spec.runner {
        return catch_unwind(AssertUnwindSafe(|| runner(spec, case))).map_err(|p| format!("harness panic: {}", crate::world::classify_panic(p).text()));
    }
    let mut oracles = (spec.make)();
    let r = catch_unwind(AssertUnwindSafe(|| run_seq(case, &mut oracles, &SeqOpts { stop_early: false, fault: None })));
    r.map_err(|p| format!("harness panic: {}", crate::world::classify_panic(p).text()))
}

pub fn run_prop(spec: &PropSpec, cases: u32, seed: u64, replay_dir: &str, known: &[String]) -> Summary {
    let t0 = std::time::Instant::now();
    let mut sum = Summary { property: spec.id.into(), engine: spec.engine.into(), seed, ..Default::default() };
    let mut seed_bytes = [0u8; 32];
    let mut st = seed ^ 0x5EED_0000_0000_0000;
    for chunk in seed_bytes.chunks_mut(8) {
        chunk.copy_from_slice(&crate::tape::splitmix(&mut st).to_le_bytes());
    }
    let cfg = Config {
        cases,
        failure_persistence: None,
        rng_algorithm: RngAlgorithm::ChaCha,
        rng_seed: RngSeed::Fixed(seed),
        max_shrink_iters: 4000,
        max_global_rejects: 0,
        ..Config::default()
    };
    let _ = seed_bytes;
    let mut runner = TestRunner::new(cfg);
    let lo = (spec.tape_len / 4).max(1);
    let strat = proptest::collection::vec(any::<u32>(), lo..=spec.tape_len);

    #[derive(Default)]
    struct St {
        nontrivial: BTreeSet<u64>,
        distinct: BTreeSet<u64>,
        labels: BTreeMap<String, u64>,
        samples: Vec<(usize, serde_json::Value)>,
        failed_rule: Option<String>,
        harness_error: Option<String>,
        ncases: u64,
        nsteps: u64,
        excluded_known: u64,
        known_counts: BTreeMap<String, u64>,
        extra_evals: u64,
        counters: BTreeMap<String, u64>,
    }
    let st = std::cell::RefCell::new(St::default());

    let result = runner.run(&strat, |tape| {
        let case = decode_case(spec, &tape);
        let mut st = st.borrow_mut();
        let st = &mut *st;
        let mut out = match run_one(spec, &case) {
            Ok(o) => o,
            Err(e) => {
                if st.harness_error.is_none() {
                    st.harness_error = Some(e.clone());
                }
                return Err(TestCaseError::fail(format!("HARNESS: {e}")));
            }
        };
        // listed findings: counted, excluded, the search continues behind them
        if !known.is_empty() {
            let before = out.violations.len();
            let mut hit = vec![];
            out.violations.retain(|v| {
                if known.iter().any(|k| k == &v.rule) {
                    hit.push(v.rule.clone());
                    false
                } else {
                    true
                }
            });
            if st.failed_rule.is_none() && before != out.violations.len() {
                st.excluded_known += 1;
                for h in hit {
                    *st.known_counts.entry(h).or_default() += 1;
                }
            }
        }
        if let Some(rule) = &st.failed_rule {
            // shrinking: keep only failures of the same rule
            if out.violations.iter().any(|v| &v.rule == rule) {
                return Err(TestCaseError::fail(rule.clone()));
            }
            return Ok(());
        }
        st.ncases += 1;
        st.nsteps += out.steps_run as u64;
        st.extra_evals += out.extra_evals;
        for (k, v) in &out.counters {
            *st.counters.entry(k.to_string()).or_default() += v;
        }
        let h = case.hash();
        st.distinct.insert(h);
        for l in &out.labels {
            *st.labels.entry(l.to_string()).or_default() += 1;
        }
        if out.labels.contains(&"nontrivial") {
            if st.nontrivial.insert(h) && (st.samples.len() < 3 || st.ncases % 997 == 0) {
                let sz = case.hist.len() + case.prog.nodes.len();
                st.samples.push((sz, serde_json::to_value(&case).unwrap()));
                if st.samples.len() > 12 {
                    st.samples.sort_by_key(|s| s.0);
                    let mid = st.samples.len() / 2;
                    st.samples = vec![st.samples[0].clone(), st.samples[mid].clone(), st.samples[st.samples.len() - 1].clone()];
                }
            }
        }
        if let Some(v) = out.violations.first() {
            st.failed_rule = Some(v.rule.clone());
            return Err(TestCaseError::fail(v.rule.clone()));
        }
        Ok(())
    });

    let St { nontrivial, distinct, labels, mut samples, harness_error, ncases, nsteps, excluded_known, known_counts, extra_evals, counters, .. } = st.into_inner();
    sum.extra.insert("excluded_known".into(), excluded_known);
    if extra_evals > 0 {
        sum.extra.insert("extra_evaluations".into(), extra_evals);
    }
    for (k, v) in counters {
        sum.extra.insert(k, v);
    }
    for (k, v) in known_counts {
        sum.extra.insert(format!("known:{k}"), v);
    }
    sum.cases = ncases;
    sum.steps = nsteps;
    sum.distinct_cases = distinct.len() as u64;
    sum.nontrivial_hashes = nontrivial.into_iter().collect();
    sum.labels = labels;
    samples.sort_by_key(|s| s.0);
    if samples.len() > 3 {
        let mid = samples.len() / 2;
        samples = vec![samples[0].clone(), samples[mid].clone(), samples[samples.len() - 1].clone()];
    }
    sum.samples = samples.into_iter().map(|s| s.1).collect();
    sum.harness_error = harness_error;

    if let Err(TestError::Fail(_, tape)) = result {
        let case = decode_case(spec, &tape);
        let rule = run_one(spec, &case).ok().and_then(|o| o.violations.iter().find(|v| !known.contains(&v.rule)).map(|v| v.rule.clone()));
        let case = match &rule {
            Some(rule) => minimize_case(&case, &|c: &Case| {
                run_one(spec, c).map(|o| o.violations.iter().any(|v| &v.rule == rule)).unwrap_or(false)
            }),
            None => case,
        };
        match run_one(spec, &case) {
            Ok(mut out) => {
                out.violations.retain(|v| !known.contains(&v.rule));
                sum.violations = out.violations.clone();
                let rp = Replay {
                    property: spec.id.into(),
                    engine: spec.engine.into(),
                    seed,
                    tape: tape.clone(),
                    case,
                    violations: out.violations,
                    extra: serde_json::Value::Null,
                    ncpu: ncpu(),
                };
                let _ = std::fs::create_dir_all(replay_dir);
                let path = format!("{replay_dir}/{}-seed{}-{:016x}.json", spec.id, seed, rp.case.hash());
                std::fs::write(&path, serde_json::to_string_pretty(&rp).unwrap()).ok();
                sum.replay = Some(path);
            }
            Err(e) => sum.harness_error = Some(e),
        }
    } else if let Err(TestError::Abort(r)) = result {
        sum.harness_error = Some(format!("proptest aborted: {r}"));
    }
    sum.wall_s = t0.elapsed().as_secs_f64();
    sum
}

// ---------------------------------------------------------------------------------------------
// case-level minimiser (after proptest's tape shrinking): delete history steps and body ops
// while the same rule keeps failing. The result is what the replay file stores.
// ---------------------------------------------------------------------------------------------

fn op_variants(ops: &[Op]) -> Vec<Vec<Op>> {
    let mut out = vec![];
    for i in 0..ops.len() {
        // delete op i
        let mut v = ops.to_vec();
        v.remove(i);
        out.push(v);
        if let Op::If { slot, field, thr, then, els } = &ops[i] {
            // replace by a branch
            for br in [then, els] {
                let mut v = ops.to_vec();
                v.splice(i..=i, br.iter().cloned());
                out.push(v);
            }
            for t in op_variants(then) {
                let mut v = ops.to_vec();
                v[i] = Op::If { slot: *slot, field: *field, thr: *thr, then: t, els: els.clone() };
                out.push(v);
            }
            for e in op_variants(els) {
                let mut v = ops.to_vec();
                v[i] = Op::If { slot: *slot, field: *field, thr: *thr, then: then.clone(), els: e };
                out.push(v);
            }
        }
    }
    out
}

pub fn minimize_case(case: &Case, fails: &dyn Fn(&Case) -> bool) -> Case {
    let mut cur = case.clone();
    let mut budget = 3000;
    loop {
        let mut changed = false;
        // history steps, from the end
        let mut i = cur.hist.len();
        while i > 0 && budget > 0 {
            i -= 1;
            let mut c = cur.clone();
            c.hist.remove(i);
            budget -= 1;
            if fails(&c) {
                cur = c;
                changed = true;
            }
        }
        // bodies
        let nbodies = cur.prog.nodes.len() + 3;
        for b in 0..nbodies {
            loop {
                let body: &Vec<Op> = match b {
                    x if x < cur.prog.nodes.len() => &cur.prog.nodes[x].body,
                    x if x == cur.prog.nodes.len() => &cur.prog.on_ent,
                    x if x == cur.prog.nodes.len() + 1 => &cur.prog.on_ent_spec,
                    _ => &cur.prog.on_sym,
                };
                let mut found = false;
                for v in op_variants(body) {
                    if budget == 0 {
                        break;
                    }
                    budget -= 1;
                    let mut c = cur.clone();
                    match b {
                        x if x < c.prog.nodes.len() => c.prog.nodes[x].body = v,
                        x if x == c.prog.nodes.len() => c.prog.on_ent = v,
                        x if x == c.prog.nodes.len() + 1 => c.prog.on_ent_spec = v,
                        _ => c.prog.on_sym = v,
                    }
                    if fails(&c) {
                        cur = c;
                        found = true;
                        changed = true;
                        break;
                    }
                }
                if !found {
                    break;
                }
            }
        }
        // node kinds -> Plain, ret_h -> false
        for n in 0..cur.prog.nodes.len() {
            if budget == 0 {
                break;
            }
            if cur.prog.nodes[n].kind != Kind::Plain && !cur.prog.lattice {
                let mut c = cur.clone();
                c.prog.nodes[n].kind = Kind::Plain;
                budget -= 1;
                if fails(&c) {
                    cur = c;
                    changed = true;
                }
            }
            if cur.prog.nodes[n].ret_h {
                let mut c = cur.clone();
                c.prog.nodes[n].ret_h = false;
                budget -= 1;
                if fails(&c) {
                    cur = c;
                    changed = true;
                }
            }
        }
        if !changed || budget == 0 {
            break;
        }
    }
    cur
}

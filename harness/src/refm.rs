//! Reference model: an independent, salsa-free interpreter of `Program`s over the model inputs.
//! This is the oracle for every "equals a from-scratch evaluation" clause.

use std::collections::BTreeMap;
use std::rc::Rc;

use crate::prog::*;

#[derive(Clone, Debug, PartialEq, Eq)]
pub struct Model {
    /// current (value, durability) per slot field
    pub vals: Vec<[(u32, D); 2]>,
    /// field ever given NEVER_CHANGE
    pub frozen: Vec<[bool; 2]>,
    pub cells: Vec<u32>,
}

impl Model {
    pub fn new(p: &Program) -> Model {
        Model {
            vals: p.slots.clone(),
            frozen: p.slots.iter().map(|s| [s[0].1 == D::Never, s[1].1 == D::Never]).collect(),
            cells: p.cells.clone(),
        }
    }
    pub fn val(&self, slot: u8, field: u8) -> u32 {
        self.vals[slot as usize][field as usize].0
    }
}

/// logical identity of a tracked struct in the reference
#[derive(Clone, Copy, Debug, PartialEq, Eq, Hash, PartialOrd, Ord)]
pub struct RLEnt {
    pub creator: (u8, u8),
    pub ident: u32,
    pub occ: u32,
}

#[derive(Clone, Copy, Debug, PartialEq, Eq)]
pub struct REnt {
    pub id: RLEnt,
    pub tv: u32,
    pub tn: u32,
}

#[derive(Clone, Copy, Debug, PartialEq, Eq, Hash, PartialOrd, Ord)]
pub enum RKey {
    Node(u8, u8),
    OnEnt(RLEnt),
    OnEntSpec(RLEnt),
    OnSym(u8, u32),
}

#[derive(Clone, Debug, Default, PartialEq, Eq)]
pub struct ROut {
    pub v: u32,
    pub ents: Vec<REnt>,
    pub syms: Vec<(u8, u32)>,
}

#[derive(Clone, Copy, Debug, PartialEq, Eq)]
pub enum RPanic {
    SpecifyTwice,
    SpecifyForeign,
    Depth,
    /// lattice programs: a cycle of functions without recovery is reachable
    Cycle,
    /// lattice programs: fixpoint iteration cannot converge
    Diverge,
    /// lattice programs: the statement allows a panic or a value (mixed cycles); must terminate
    Either,
    /// lattice programs: a cycle panic, or else exactly this value (the least fixpoint)
    EitherValue(u32),
}

#[derive(Clone, Debug, Default)]
pub struct RRec {
    pub out: ROut,
    /// direct callees in call order (every call, also repeated ones)
    pub calls: Vec<RKey>,
    pub pushed: Vec<u32>,
    pub reads: Vec<(u8, u8)>,
    pub untracked: bool,
    pub created: Vec<REnt>,
    pub interned: Vec<(u8, u32)>,
}

pub struct Eval<'a> {
    pub prog: &'a Program,
    pub m: &'a Model,
    pub memo: BTreeMap<RKey, Rc<RRec>>,
    /// keys in order of first evaluation (pre-order)
    pub order: Vec<RKey>,
    /// every call performed (pre-order, including memo hits): the dynamic call sequence
    pub call_seq: Vec<RKey>,
    /// values assigned by creators through `specify`
    pub assigned: BTreeMap<RLEnt, u32>,
    /// on_ent_spec body already ran for this struct
    pub body_ran: BTreeMap<RLEnt, bool>,
    depth: u32,
}

struct RFrame {
    acc: u32,
    ents: Vec<REnt>,
    syms: Vec<(u8, u32)>,
    mine: Vec<usize>,
    occ: BTreeMap<u32, u32>,
    rec: RRec,
    me: RKey,
}

impl<'a> Eval<'a> {
    pub fn new(prog: &'a Program, m: &'a Model) -> Self {
        Eval {
            prog,
            m,
            memo: BTreeMap::new(),
            order: vec![],
            call_seq: vec![],
            assigned: BTreeMap::new(),
            body_ran: BTreeMap::new(),
            depth: 0,
        }
    }

    pub fn node(&mut self, node: u8, arg: u8) -> Result<Rc<RRec>, RPanic> {
        let n = &self.prog.nodes[node as usize];
        let arg = arg % n.nargs;
        self.key(RKey::Node(node, arg), None)
    }

    fn key(&mut self, k: RKey, self_ent: Option<REnt>) -> Result<Rc<RRec>, RPanic> {
        self.call_seq.push(k);
        if let Some(r) = self.memo.get(&k) {
            return Ok(r.clone());
        }
        if self.depth > 64 {
            return Err(RPanic::Depth);
        }
        self.depth += 1;
        self.order.push(k);
        let prog = self.prog;
        let (body, acc0, ents, syms, ret_h): (&[Op], u32, Vec<REnt>, Vec<(u8, u32)>, bool) = match k {
            RKey::Node(n, a) => {
                let nd = &prog.nodes[n as usize];
                (&nd.body, a as u32 % VMOD, vec![], vec![], nd.ret_h)
            }
            RKey::OnEnt(_) => (&prog.on_ent, 0, vec![self_ent.unwrap()], vec![], false),
            RKey::OnEntSpec(_) => (&prog.on_ent_spec, 0, vec![self_ent.unwrap()], vec![], false),
            RKey::OnSym(ty, x) => (&prog.on_sym, 0, vec![], vec![(ty, x)], false),
        };
        let mut f = RFrame { acc: acc0, ents, syms, mine: vec![], occ: BTreeMap::new(), rec: RRec::default(), me: k };
        let r = self.ops(&mut f, body);
        self.depth -= 1;
        r?;
        f.rec.out = if ret_h { ROut { v: f.acc, ents: f.ents, syms: f.syms } } else { ROut { v: f.acc, ents: vec![], syms: vec![] } };
        let rc = Rc::new(f.rec);
        self.memo.insert(k, rc.clone());
        Ok(rc)
    }

    fn read(&mut self, f: &mut RFrame, slot: u8, field: u8) -> u32 {
        if !f.rec.reads.contains(&(slot, field)) {
            f.rec.reads.push((slot, field));
        }
        self.m.val(slot, field)
    }

    fn call(&mut self, f: &mut RFrame, node: u8, arg: Src) -> Result<Rc<RRec>, RPanic> {
        let n = &self.prog.nodes[node as usize];
        let a = (match arg {
            Src::Const(c) => c,
            Src::Acc => f.acc,
        } % n.nargs as u32) as u8;
        let k = RKey::Node(node, a);
        f.rec.calls.push(k);
        let r = self.key(k, None)?;
        f.ents.extend(r.out.ents.iter().copied());
        f.syms.extend(r.out.syms.iter().copied());
        Ok(r)
    }

    fn ops(&mut self, f: &mut RFrame, ops: &[Op]) -> Result<(), RPanic> {
        let sv = |s: Src, acc: u32| match s {
            Src::Const(c) => c,
            Src::Acc => acc,
        };
        for op in ops {
            match op {
                Op::Read { slot, field } => {
                    let v = self.read(f, *slot, *field);
                    f.acc = mix(f.acc, v);
                }
                Op::Call { node, arg } => {
                    let r = self.call(f, *node, *arg)?;
                    f.acc = mix(f.acc, r.out.v);
                }
                Op::If { slot, field, thr, then, els } => {
                    let v = self.read(f, *slot, *field);
                    if v >= *thr {
                        self.ops(f, then)?;
                    } else {
                        self.ops(f, els)?;
                    }
                }
                Op::NewEnt { ident } => {
                    let id_v = sv(*ident, f.acc) % VMOD;
                    let occ = f.occ.entry(id_v).or_insert(0);
                    let creator = match f.me {
                        RKey::Node(n, a) => (n, a),
                        _ => panic!("special functions do not create structs"),
                    };
                    let e = REnt { id: RLEnt { creator, ident: id_v, occ: *occ }, tv: f.acc, tn: f.acc };
                    *occ += 1;
                    f.rec.created.push(e);
                    f.mine.push(f.ents.len());
                    f.ents.push(e);
                }
                Op::EntField { h, which } => {
                    if !f.ents.is_empty() {
                        let e = f.ents[*h as usize % f.ents.len()];
                        let v = match which {
                            0 => e.id.ident,
                            1 => e.tv,
                            _ => e.tn,
                        };
                        f.acc = mix(f.acc, v);
                    }
                }
                Op::CallOnEnt { h } => {
                    if !f.ents.is_empty() {
                        let e = f.ents[*h as usize % f.ents.len()];
                        let k = RKey::OnEnt(e.id);
                        f.rec.calls.push(k);
                        let r = self.key(k, Some(e))?;
                        f.acc = mix(f.acc, r.out.v);
                    }
                }
                Op::CallOnEntSpec { h } => {
                    if !f.ents.is_empty() {
                        let e = f.ents[*h as usize % f.ents.len()];
                        let k = RKey::OnEntSpec(e.id);
                        f.rec.calls.push(k);
                        let v = if let Some(&a) = self.assigned.get(&e.id) {
                            self.call_seq.push(k);
                            a
                        } else {
                            let r = self.key(k, Some(e))?;
                            self.body_ran.insert(e.id, true);
                            r.out.v
                        };
                        f.acc = mix(f.acc, v);
                    }
                }
                Op::Specify { h, val } => {
                    if !f.mine.is_empty() {
                        let e = f.ents[f.mine[*h as usize % f.mine.len()]];
                        let v = sv(*val, f.acc) % VMOD;
                        if self.body_ran.get(&e.id).copied().unwrap_or(false) {
                            // the computed value wins this revision
                        } else if self.assigned.contains_key(&e.id) {
                            return Err(RPanic::SpecifyTwice);
                        } else {
                            self.assigned.insert(e.id, v);
                        }
                    }
                }
                Op::SpecifyAny { h, val } => {
                    if !f.ents.is_empty() {
                        let i = *h as usize % f.ents.len();
                        let e = f.ents[i];
                        let v = sv(*val, f.acc) % VMOD;
                        if !f.mine.contains(&i) {
                            return Err(RPanic::SpecifyForeign);
                        }
                        if self.body_ran.get(&e.id).copied().unwrap_or(false) {
                        } else if self.assigned.contains_key(&e.id) {
                            return Err(RPanic::SpecifyTwice);
                        } else {
                            self.assigned.insert(e.id, v);
                        }
                    }
                }
                Op::Intern { ty, x } => {
                    let xv = sv(*x, f.acc);
                    f.rec.interned.push((*ty, xv));
                    f.syms.push(((*ty).min(3), xv));
                }
                Op::SymField { h } => {
                    if !f.syms.is_empty() {
                        let s = f.syms[*h as usize % f.syms.len()];
                        f.acc = mix(f.acc, s.1 % VMOD);
                    }
                }
                Op::CallOnSym { h } => {
                    let cands: Vec<(u8, u32)> = f.syms.iter().copied().filter(|s| s.0 <= 1).collect();
                    if !cands.is_empty() {
                        let s = cands[*h as usize % cands.len()];
                        let k = RKey::OnSym(s.0, s.1);
                        f.rec.calls.push(k);
                        let r = self.key(k, None)?;
                        f.acc = mix(f.acc, r.out.v);
                    }
                }
                Op::Untracked { cell } => {
                    f.rec.untracked = true;
                    f.acc = mix(f.acc, self.m.cells[*cell as usize]);
                }
                Op::Acc => {
                    let tag = match f.me {
                        RKey::Node(n, a) => ((n as u32) << 8) | ((a as u32) << 4),
                        _ => 0xF000,
                    };
                    f.rec.pushed.push(tag | (f.acc & 0xF));
                }
                Op::CallMask { .. } | Op::CallShift { .. } | Op::CallInc { .. } | Op::CallNot { .. } | Op::CallSat { .. } | Op::CallMax { .. } | Op::UntrackedBelow { .. } => {
                    panic!("lattice op in acyclic reference")
                }
            }
        }
        Ok(())
    }

    /// accumulated values of `k`: every function reachable through calls contributes once, in
    /// pre-order DFS over first-call order, own pushes first.
    pub fn accumulated(&self, k: RKey) -> Vec<u32> {
        let mut seen = std::collections::BTreeSet::new();
        let mut out = vec![];
        let mut stack = vec![k];
        while let Some(k) = stack.pop() {
            if !seen.insert(k) {
                continue;
            }
            let Some(r) = self.memo.get(&k) else { continue };
            out.extend(r.pushed.iter().copied());
            for c in r.calls.iter().rev() {
                stack.push(*c);
            }
        }
        out
    }
}

//! C23 — memory errors. Shared by the libFuzzer target (`fuzz/fuzz_targets/hist.rs`, ASan + LSan)
//! and the counting-allocator leak check. A tape is decoded into one of four history shapes (lru
//! eviction, tracked-struct / interned churn, fixpoint cycles, general) and run on a fresh
//! database with the value oracle plus the reference-revalidation oracle: every `&` handed out
//! by a `returns(ref)` function is kept and re-read just before the database is next borrowed
//! mutably; it must still hold the value it had when it was returned.

use crate::obs::*;
use crate::prog::*;
use crate::props::{self, ValueOracle};
use crate::seq::*;
use crate::tape::Tape;
use crate::world::*;

/// Keeps references returned by `plain_ref` alive across steps (deliberately outliving the borrow
/// the type system would allow: that is the property under test).
#[derive(Default)]
pub struct RefHold {
    held: Vec<(*const Out<'static>, OutRepr, (u8, u8))>,
    revalidated: u64,
    held_across_eviction: bool,
    held_total: u64,
    saw_evict_or_reuse: bool,
    saw_panic: bool,
}

// SAFETY: the raw pointers are only dereferenced on the thread that owns the database.
unsafe impl Send for RefHold {}

impl RefHold {
    fn revalidate(&mut self, why: &str, idx: usize, out: &mut Vec<Violation>) {
        for (p, repr, key) in self.held.drain(..) {
            // SAFETY (the claim being tested): salsa promises that a reference returned in this
            // revision stays valid until the database is next borrowed mutably.
            let now = unsafe { (*p).repr() };
            self.revalidated += 1;
            if now != repr {
                out.push(Violation {
                    rule: "returned-reference-changed".into(),
                    step: idx,
                    detail: format!("&Out of get{key:?} read {:?} when returned and {:?} {why}", repr, now),
                });
            }
        }
    }
}

impl Oracle for RefHold {
    fn before(&mut self, _world: &World, step: &Step, idx: usize) -> Vec<Violation> {
        let mut out = vec![];
        if matches!(step, Step::Set { .. } | Step::Synth { .. } | Step::SetCell { .. } | Step::Evict | Step::LruCap { .. } | Step::Snapshot) {
            if !self.held.is_empty() && matches!(step, Step::Evict | Step::LruCap { .. }) {
                self.held_across_eviction = true;
            }
            self.revalidate("just before the next mutable borrow", idx, &mut out);
        }
        out
    }

    fn step(&mut self, cx: &StepCtx) -> Vec<Violation> {
        for r in cx.recs {
            if matches!(r, Rec::Ev(_, Ev::DidReuseInterned(_)) | Rec::Ev(_, Ev::DidDiscard(_))) {
                self.saw_evict_or_reuse = true;
            }
        }
        if let StepRes::Got { key, real, .. } = cx.res {
            if real.is_err() {
                self.saw_panic = true;
            }
            let nd = &cx.case.prog.nodes[key.0 as usize];
            if nd.kind == Kind::Ref && real.is_ok() && self.held.len() < 64 {
                let db = &cx.world.db;
                let k = cx.world.ctx.nodekey(key.0, key.1);
                let r: &Out<'_> = plain_ref(db, k);
                let repr = r.repr();
                // SAFETY: lifetime erased on purpose, see `revalidate`.
                let p: *const Out<'static> = unsafe { std::mem::transmute::<*const Out<'_>, *const Out<'static>>(r as *const Out<'_>) };
                self.held.push((p, repr, *key));
                self.held_total += 1;
                // the extra fetch is a cache hit; drop what it logged so other oracles do not see it
                cx.world.take_log();
            }
        }
        vec![]
    }

    fn finish(&mut self, _case: &Case, _ix: &Index) -> Vec<Violation> {
        let mut out = vec![];
        // the database is still alive here (dropped by the engine afterwards)
        self.revalidate("at the end of the history", usize::MAX, &mut out);
        out
    }

    fn labels(&self) -> Vec<&'static str> {
        let mut l = vec![];
        if self.held_total > 0 && (self.saw_evict_or_reuse || self.saw_panic) {
            l.push("nontrivial");
        }
        if self.held_total > 0 {
            l.push("reference-held");
        }
        if self.held_across_eviction {
            l.push("reference-held-until-eviction");
        }
        if self.saw_evict_or_reuse {
            l.push("discard-or-slot-reuse");
        }
        if self.saw_panic {
            l.push("panicked-request");
        }
        l
    }
}

fn shape_profile(shape: u32) -> Profile {
    let mut pf = match shape {
        0 => props::spec("C05").unwrap().profile,
        1 => props::spec("C07").unwrap().profile,
        2 => props::spec("C12").unwrap().profile,
        3 => props::spec("C14").unwrap().profile,
        _ => props::spec("C01").unwrap().profile,
    };
    if !pf.lattice {
        // plenty of returns(ref) functions
        pf.kinds[2] += 4;
    }
    pf.max_steps = pf.max_steps.min(30);
    pf
}

pub fn decode(tape: &[u32]) -> Case {
    let mut t = Tape::new(tape);
    let shape = t.weighted(&[3, 3, 2, 3, 3]) as u32;
    let pf = shape_profile(shape);
    let prog = gen_program(&mut t, &pf);
    let hist = gen_history(&mut t, &prog, &pf);
    Case { prog, hist }
}

pub fn oracles(case: &Case) -> Vec<Box<dyn Oracle>> {
    let value: Box<dyn Oracle> = if case.prog.lattice {
        Box::new(props::cyc::CycKf::new(Box::new(props::cyc::FallbackKf::new())))
    } else {
        Box::new(ValueOracle::new())
    };
    vec![value, Box::new(RefHold::default())]
}

pub fn run_case(case: &Case) -> SeqOutcome {
    let mut o = oracles(case);
    run_seq(case, &mut o, &SeqOpts { stop_early: false, fault: None })
}

pub fn run_tape(tape: &[u32]) -> (Case, SeqOutcome) {
    let case = decode(tape);
    let out = run_case(&case);
    (case, out)
}

// ---------------------------------------------------------------------------------------------
// leak check with a counting allocator (the `vh` binary installs `CountingAlloc` globally):
// the same history is run three times in one process, each time on a fresh database that is
// dropped at the end; run 1 warms statics, thread-local pools and ingredient caches; the number
// of live heap bytes after run 2 and after run 3 must be equal.
// ---------------------------------------------------------------------------------------------

pub struct CountingAlloc;
pub static LIVE_BYTES: std::sync::atomic::AtomicIsize = std::sync::atomic::AtomicIsize::new(0);

// Poisoning quarantine (mem engine only, switched on by `POISON`): a freed block is filled with
// 0xDD and parked in a ring of `QN` blocks before it really goes back to the system allocator, so
// a read through a dangling pointer sees the pattern (salsa then panics on an impossible tag or
// returns a value the reference rejects) instead of plausible old contents, and a write through a
// dangling pointer is noticed when the block leaves the ring (`WRITES_AFTER_FREE`).
pub static POISON: std::sync::atomic::AtomicBool = std::sync::atomic::AtomicBool::new(false);
pub static WRITES_AFTER_FREE: std::sync::atomic::AtomicUsize = std::sync::atomic::AtomicUsize::new(0);
const QN: usize = 2048;
const QMAX: usize = 1 << 16;
static QLOCK: std::sync::atomic::AtomicBool = std::sync::atomic::AtomicBool::new(false);
static mut QRING: [(usize, usize, usize); QN] = [(0, 0, 0); QN];
static mut QPOS: usize = 0;

unsafe fn quarantine(p: *mut u8, l: std::alloc::Layout) {
    use std::alloc::GlobalAlloc;
    use std::sync::atomic::Ordering::*;
    unsafe { std::ptr::write_bytes(p, 0xDD, l.size()) };
    while QLOCK.compare_exchange_weak(false, true, Acquire, Relaxed).is_err() {
        std::hint::spin_loop();
    }
    // SAFETY: guarded by QLOCK
    let old = unsafe {
        let ring = &mut *std::ptr::addr_of_mut!(QRING);
        let pos = &mut *std::ptr::addr_of_mut!(QPOS);
        let old = ring[*pos];
        ring[*pos] = (p as usize, l.size(), l.align());
        *pos = (*pos + 1) % QN;
        old
    };
    QLOCK.store(false, Release);
    if old.0 != 0 {
        let q = old.0 as *mut u8;
        let intact = unsafe { std::slice::from_raw_parts(q, old.1) }.iter().all(|b| *b == 0xDD);
        if !intact {
            WRITES_AFTER_FREE.fetch_add(1, Relaxed);
        }
        unsafe { std::alloc::System.dealloc(q, std::alloc::Layout::from_size_align_unchecked(old.1, old.2)) }
    }
}

unsafe impl std::alloc::GlobalAlloc for CountingAlloc {
    unsafe fn alloc(&self, l: std::alloc::Layout) -> *mut u8 {
        let p = unsafe { std::alloc::System.alloc(l) };
        if !p.is_null() {
            LIVE_BYTES.fetch_add(l.size() as isize, std::sync::atomic::Ordering::Relaxed);
        }
        p
    }
    unsafe fn dealloc(&self, p: *mut u8, l: std::alloc::Layout) {
        LIVE_BYTES.fetch_sub(l.size() as isize, std::sync::atomic::Ordering::Relaxed);
        if POISON.load(std::sync::atomic::Ordering::Relaxed) && l.size() > 0 && l.size() <= QMAX {
            unsafe { quarantine(p, l) }
        } else {
            unsafe { std::alloc::System.dealloc(p, l) }
        }
    }
    unsafe fn realloc(&self, p: *mut u8, l: std::alloc::Layout, new_size: usize) -> *mut u8 {
        let q = unsafe { std::alloc::System.realloc(p, l, new_size) };
        if !q.is_null() {
            LIVE_BYTES.fetch_add(new_size as isize - l.size() as isize, std::sync::atomic::Ordering::Relaxed);
        }
        q
    }
}

pub fn live_bytes() -> isize {
    LIVE_BYTES.load(std::sync::atomic::Ordering::SeqCst)
}

fn run_mem_case(_spec: &props::PropSpec, case: &Case) -> SeqOutcome {
    POISON.store(true, std::sync::atomic::Ordering::SeqCst);
    let waf0 = WRITES_AFTER_FREE.load(std::sync::atomic::Ordering::SeqCst);
    let mut first = run_case(case);
    if !first.violations.is_empty() {
        return first;
    }
    let second = run_case(case);
    drop(second);
    let after2 = live_bytes();
    let third = run_case(case);
    drop(third);
    let after3 = live_bytes();
    first.extra_evals = 2;
    if after3 != after2 {
        first.violations.push(Violation {
            rule: "heap-grows-per-database".into(),
            step: 0,
            detail: format!("live heap bytes after dropping the database: {after2} after the 2nd run, {after3} after the 3rd run of the same history ({:+} bytes per run)", after3 - after2),
        });
    }
    let waf = WRITES_AFTER_FREE.load(std::sync::atomic::Ordering::SeqCst);
    if waf != waf0 {
        first.violations.push(Violation {
            rule: "write-after-free".into(),
            step: 0,
            detail: format!("{} freed block(s) were modified while parked in the poisoning quarantine during or shortly before this case", waf - waf0),
        });
    }
    first.labels.push("leak-metamorphic-checked");
    first
}

pub fn spec_c23_mem() -> props::PropSpec {
    props::PropSpec {
        id: "C23",
        profile: Profile::base(),
        tape_len: 400,
        make: || vec![],
        nt_rule: "",
        engine: "mem",
        runner: Some(run_mem_case),
        decode: Some(decode),
    }
}

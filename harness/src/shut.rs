//! `shut` engine: salsa's shuttle build under shuttle's random / PCT schedulers (panic-free
//! concurrency: C08, C16, C17, C18, C24 and the protocol-trace part of C19).
//!
//! One case = a generated program + per-thread plans (+ an optional write by the main thread and
//! a second parallel phase). The case is executed `iterations` times inside ONE shuttle `Runner`,
//! every iteration under a different schedule, with a fresh database built inside the execution.
//! Oracles run at the end of every iteration; shuttle-detected deadlocks / step-bound overruns /
//! panics arrive as a panic out of `Runner::run` and are reported as violations.

#![cfg(feature = "shuttle")]

use std::collections::{BTreeMap, BTreeSet};
use std::panic::{AssertUnwindSafe, catch_unwind};
use std::sync::atomic::{AtomicBool, AtomicU64, Ordering};
use std::sync::{Arc, Mutex};

use serde::{Deserialize, Serialize};
use shuttle::scheduler::{PctScheduler, RandomScheduler};

use crate::fault;
use crate::lat::{Lat, LatWant};
use crate::obs::*;
use crate::prog::*;
use crate::refm::*;
use crate::seq::{SeqOutcome, Violation, got_matches};
use crate::tape::Tape;
use crate::world::*;

#[derive(Clone, Debug, PartialEq, Eq, Hash, Serialize, Deserialize)]
pub enum TOp {
    Get { node: u8, arg: u8 },
    Intern { ty: u8, x: u32 },
    /// create a new input (a `Probe`) holding `val`
    NewInput { val: u32 },
    /// replace this thread's handle by a fresh clone (the old one is dropped, which hands its
    /// partially filled pages back to the shared table)
    Rehandle,
    /// call `key_tag` on the input that keys node function (node, arg)
    Tag { node: u8, arg: u8 },
    /// like `Rehandle`, but through `Storage::into_zalsa_handle` + `StorageHandle::into_storage`
    Park,
}

#[derive(Clone, Debug, PartialEq, Eq, Hash, Serialize, Deserialize)]
pub struct ShutCase {
    pub prog: Program,
    pub phase1: Vec<Vec<TOp>>,
    /// main-thread write between the phases: (slot, field, value)
    pub write: Option<(u8, u8, u32)>,
    pub phase2: Vec<Vec<TOp>>,
    /// 0 = random scheduler, d >= 1 = PCT with depth d
    pub sched: u8,
    pub sched_seed: u64,
    pub iterations: u32,
    /// capacity of the `lru` function, set before phase 1 (programs with lru nodes only): values
    /// beyond it are evicted at the write between the phases
    #[serde(default)]
    pub lru_cap: Option<u8>,
    /// after phase 1 one more thread requests every key (same revision): phase 2 then validates
    /// existing memos concurrently instead of computing most things for the first time, and every
    /// lru key beyond the capacity is evicted at the write
    #[serde(default)]
    pub sweep: bool,
}

#[derive(Clone, Copy, Debug, PartialEq, Eq)]
pub enum Which {
    /// C16 + C17: acyclic programs, values and at-most-one execution
    Readers,
    /// C18: cyclic programs with recovery
    Cycles,
    /// C08: interning canonical
    Interning,
    /// C24: identities distinct under concurrent creation
    Identities,
    /// C19: protocol trace invariants over a mix of acyclic and cyclic programs
    Proto,
}

fn gen_plan(t: &mut Tape, prog: &Program, which: Which, max_ops: u32) -> Vec<TOp> {
    let n = 1 + t.pick(max_ops);
    let nn = prog.nodes.len() as u32;
    (0..n)
        .map(|_| {
            let k = match which {
                Which::Readers => t.weighted(&[5, 0, 0, 0, 1]),
                Which::Cycles | Which::Proto => 0,
                Which::Interning => t.weighted(&[3, 4]),
                Which::Identities => t.weighted(&[3, 2, 4, 2, 0, 2]),
            };
            match k {
                0 => {
                    // cyclic programs: enter at members of the cyclic layer most of the time
                    let cyc: Vec<u8> = prog.nodes.iter().enumerate().filter(|(_, n)| matches!(n.kind, Kind::Fix | Kind::FixJoin | Kind::Fall)).map(|(i, _)| i as u8).collect();
                    let node = if prog.lattice && !cyc.is_empty() && t.chance(3, 4) { cyc[t.pick(cyc.len() as u32) as usize] } else { t.pick(nn) as u8 };
                    TOp::Get { node, arg: t.pick(prog.nodes[node as usize].nargs as u32) as u8 }
                }
                1 => TOp::Intern { ty: t.weighted(&[3, 3, 3, 2]) as u8, x: t.pick(4) },
                2 => TOp::NewInput { val: t.pick(1000) },
                3 => TOp::Rehandle,
                4 => {
                    let node = t.pick(nn) as u8;
                    TOp::Tag { node, arg: t.pick(prog.nodes[node as usize].nargs as u32) as u8 }
                }
                _ => TOp::Park,
            }
        })
        .collect()
}

pub fn profile(which: Which) -> Profile {
    match which {
        Which::Readers => {
            let mut pf = Profile::base();
            pf.max_nodes = 6;
            pf.max_ops = 4;
            pf.max_slots = 2;
            pf.max_cells = 0;
            pf.durs = [4, 1, 1, 0];
            // no lru (C17 excludes eviction)
            pf.kinds = [6, 2, 2, 1, 2, 0, 0, 0, 0, 0];
            pf.ops = [5, 8, 2, 2, 2, 2, 0, 0, 2, 1, 1, 0, 0];
            pf
        }
        Which::Cycles => {
            let mut pf = Profile::base();
            pf.lattice = true;
            pf.durs = [1, 0, 0, 0];
            pf.max_slots = 2;
            pf.max_nodes = 7;
            pf.max_ops = 3;
            pf.kinds = [0; N_KINDS];
            pf.kinds[6] = 4;
            pf.kinds[7] = 2;
            pf.kinds[8] = 1;
            pf.sat_pct = 30;
            pf.maxplus_pct = 20;
            pf
        }
        Which::Interning => {
            let mut pf = Profile::base();
            pf.max_nodes = 5;
            pf.max_ops = 4;
            pf.max_slots = 2;
            pf.max_cells = 0;
            pf.durs = [1, 0, 0, 0];
            pf.kinds = [6, 0, 0, 0, 3, 0, 0, 0, 0, 0];
            pf.ops = [3, 4, 1, 0, 0, 0, 0, 0, 8, 3, 2, 0, 0];
            pf.sym_dom = 4;
            pf.ret_h_pct = 90;
            pf
        }
        Which::Proto => profile(Which::Cycles),
        Which::Identities => {
            let mut pf = Profile::base();
            pf.max_nodes = 5;
            pf.max_ops = 4;
            pf.max_slots = 2;
            pf.max_cells = 0;
            pf.durs = [1, 0, 0, 0];
            pf.kinds = [6, 0, 0, 0, 3, 0, 0, 0, 0, 0];
            pf.ops = [3, 3, 1, 7, 2, 1, 0, 0, 3, 1, 0, 0, 0];
            pf.ret_h_pct = 90;
            pf
        }
    }
}

pub fn gen_shut_case(tape: &[u32], which: Which, iterations: u32) -> ShutCase {
    let mut t = Tape::new(tape);
    let sched_seed = ((t.raw() as u64) << 32) | t.raw() as u64;
    let sched = t.weighted(&[3, 1, 2, 2, 1, 1, 1]) as u8; // random, pct 1, 2, 3, 5, 15, 30
    let sched = match sched {
        4 => 5,
        5 => 15,
        6 => 30,
        s => s,
    };
    let which = if which == Which::Proto { if t.chance(2, 3) { Which::Cycles } else { Which::Readers } } else { which };
    let mut pf = profile(which);
    // C16 with eviction: lru functions with a tiny capacity, evicted at the write between phases
    // (C17's at-most-once clause excludes eviction and is not evaluated for these programs)
    let mut lru_cap = None;
    if which == Which::Readers && t.chance(1, 3) {
        pf.kinds[5] = 4;
        lru_cap = Some(1 + t.pick(4) as u8 / 3);
    }
    let prog = gen_program(&mut t, &pf);
    let nt = 2 + t.pick(3);
    let mut phase1: Vec<Vec<TOp>> = (0..nt).map(|_| gen_plan(&mut t, &prog, which, 4)).collect();
    // two different functions storing the very first memos of one input at the same time
    if which == Which::Readers && t.chance(1, 2) {
        if let Some(TOp::Get { node, arg }) = phase1[0].first().cloned() {
            let i = 1 + t.pick(nt - 1) as usize;
            phase1[i].insert(0, TOp::Tag { node, arg });
        }
    }
    let (write, phase2) = if t.chance(1, 2) {
        let slot = t.pick(prog.slots.len() as u32) as u8;
        let mut w = (slot, t.pick(2) as u8, t.pick(VMOD));
        let nt2 = 2 + t.pick(2);
        let mut plans: Vec<Vec<TOp>> = (0..nt2).map(|_| gen_plan(&mut t, &prog, which, 3)).collect();
        if which == Which::Readers {
            // most writes hit a field the program reads
            let looked_at = if_guards(&prog);
            if !looked_at.is_empty() && t.chance(3, 4) {
                let (s, f, _) = looked_at[t.pick(looked_at.len() as u32) as usize];
                w = (s, f, w.2);
            }
            // two threads start the new revision at two different callers of one shared callee
            // (concurrent validation of different dependants of the same sub-query)
            if t.chance(1, 2) {
                let n = prog.nodes.len();
                let callers_of = |c: u8| -> Vec<u8> { (0..n as u8).filter(|i| *i != c && static_callees(&prog.nodes[*i as usize].body).contains(&c)).collect() };
                let shared: Vec<u8> = (0..n as u8).filter(|c| callers_of(*c).len() >= 2).collect();
                if !shared.is_empty() {
                    let c = shared[t.pick(shared.len() as u32) as usize];
                    let cs = callers_of(c);
                    let a = t.pick(cs.len() as u32) as usize;
                    let b = (a + 1 + t.pick(cs.len() as u32 - 1) as usize) % cs.len();
                    plans[0].insert(0, TOp::Get { node: cs[a], arg: 0 });
                    plans[1].insert(0, TOp::Get { node: cs[b], arg: 0 });
                }
            }
        }
        // Listed findings of the sequential cyclic properties are excluded by construction here
        // (a panic cannot be classified under shuttle): no second revision for programs with
        // cycle_result functions (c13-kf1/kf2), and the write never reshapes the call graph
        // (cyc-kf2, the backdate assertion, needs a reshaped cycle). cyc-kf1 is recognised
        // through the trace hook.
        let reshapes = |ops: &[Op]| -> bool {
            fn any_if(ops: &[Op], w: (u8, u8)) -> bool {
                ops.iter().any(|o| match o {
                    Op::If { slot, field, then, els, .. } => (*slot, *field) == w || any_if(then, w) || any_if(els, w),
                    _ => false,
                })
            }
            any_if(ops, (w.0, w.1))
        };
        let excluded = prog.lattice && (prog.nodes.iter().any(|n| n.kind == Kind::Fall) || prog.nodes.iter().any(|n| reshapes(&n.body)));
        if excluded { (None, vec![]) } else { (Some(w), plans) }
    } else {
        (None, vec![])
    };
    let lru_cap = if prog.nodes.iter().any(|n| n.kind == Kind::Lru) { lru_cap } else { None };
    let sweep = which == Which::Readers && write.is_some() && (lru_cap.is_some() || t.chance(1, 2));
    ShutCase { prog, phase1, write, phase2, sched, sched_seed, iterations, lru_cap, sweep }
}

#[salsa::input]
pub struct Probe {
    #[returns(copy)]
    pub val: u32,
}

/// what one thread observed
#[derive(Clone, Debug)]
enum TRes {
    Got((u8, u8), Result<Got, Pan>),
    Interned((u8, u32), Result<(u8, u64, u32), Pan>),
    Input(u32, u64, u32),
    Rehandled,
    Tag((u8, u8), Result<u32, Pan>),
}

#[derive(Default)]
struct Shared {
    violations: Mutex<Vec<(u64, Violation)>>,
    iters_done: AtomicU64,
    blocked: AtomicBool,
    contended_exec: AtomicBool,
    scc_two_threads: AtomicBool,
    same_value_race: AtomicBool,
    page_shared: AtomicBool,
    max_block: AtomicU64,
    steps: AtomicU64,
    proto_blocks: AtomicU64,
    proto_transfers: AtomicU64,
    proto_bad_wakes: AtomicU64,
}

fn run_thread(db: VDb, tid: u32, plan: Vec<TOp>) -> Vec<TRes> {
    fault::set_tid(tid);
    let mut db = db;
    let mut out = vec![];
    for op in plan {
        match op {
            TOp::Get { node, arg } => {
                let n = &db.ctx().prog.nodes[node as usize];
                let arg = arg % n.nargs;
                let r = catch_unwind(AssertUnwindSafe(|| {
                    let o = call_node(&db, node, arg);
                    Got {
                        v: o.v,
                        ents: o.ents.iter().map(|e| { use salsa::plumbing::AsId; (e.as_id().as_bits(), e.ident(&db).0, e.tv(&db).0, e.tn(&db).0) }).collect(),
                        syms: o.syms.iter().map(|s| (s.ty(), s.id(), s.x(&db))).collect(),
                    }
                }))
                .map_err(classify_panic);
                out.push(TRes::Got((node, arg), r));
            }
            TOp::Intern { ty, x } => {
                let r = catch_unwind(AssertUnwindSafe(|| {
                    let s = match ty {
                        0 => SymAny::S1(Sym1::new(&db, SV(x))),
                        1 => SymAny::S2(Sym2::new(&db, SV(x))),
                        2 => SymAny::S3(Sym3::new(&db, SV(x))),
                        _ => SymAny::SI(SymImm::new(&db, FV(x))),
                    };
                    (s.ty(), s.id(), s.x(&db))
                }))
                .map_err(classify_panic);
                out.push(TRes::Interned((ty.min(3), x), r));
            }
            TOp::NewInput { val } => {
                use salsa::plumbing::AsId;
                let p = Probe::new(&db, val);
                out.push(TRes::Input(val, p.as_id().as_bits(), p.val(&db)));
            }
            TOp::Tag { node, arg } => {
                let arg = arg % db.ctx().prog.nodes[node as usize].nargs;
                let k = db.ctx().nodekey(node, arg);
                let r = catch_unwind(AssertUnwindSafe(|| *key_tag(&db, k))).map_err(classify_panic);
                out.push(TRes::Tag((node, arg), r));
            }
            TOp::Park => {
                db = db.park_and_resume();
                out.push(TRes::Rehandled);
            }
            TOp::Rehandle => {
                let fresh = db.clone();
                drop(std::mem::replace(&mut db, fresh));
                out.push(TRes::Rehandled);
            }
        }
    }
    drop(db);
    out
}

fn run_phase(world: &World, plans: &[Vec<TOp>]) -> Vec<Vec<TRes>> {
    let handles: Vec<_> = plans
        .iter()
        .enumerate()
        .map(|(i, plan)| {
            let db = world.db.clone();
            let plan = plan.clone();
            shuttle::thread::spawn(move || run_thread(db, i as u32 + 1, plan))
        })
        .collect();
    handles.into_iter().map(|h| h.join().expect("worker task panicked")).collect()
}

fn viol(rule: &str, detail: String) -> Violation {
    Violation { rule: rule.into(), step: 0, detail }
}

struct PhaseCheck<'a> {
    which: Which,
    case: &'a ShutCase,
    model: &'a Model,
    phase: u8,
}

/// Oracles for one completed phase of one execution.
fn check_phase(pc: &PhaseCheck, results: &[Vec<TRes>], log: &[Rec], sh: &Shared, ids: &mut IdBook, out: &mut Vec<Violation>) {
    let prog = &pc.case.prog;
    // --- values (C16 / C18 / every other property's clause (a)) ---
    for (t, rs) in results.iter().enumerate() {
        for r in rs {
            match r {
                TRes::Got(key, real) => {
                    let want: Result<ROut, LatWant> = if prog.lattice {
                        match Lat::new(prog, pc.model).solve(key.0).0 {
                            LatWant::Value(v) => Ok(ROut { v, ents: vec![], syms: vec![] }),
                            other => Err(other),
                        }
                    } else {
                        let mut ev = Eval::new(prog, pc.model);
                        match ev.node(key.0, key.1) {
                            Ok(r) => Ok(r.out.clone()),
                            Err(_) => Err(LatWant::Either),
                        }
                    };
                    match (real, want) {
                        (Ok(g), Ok(w)) => {
                            if let Err(e) = got_matches(g, &w) {
                                out.push(viol("value-mismatch", format!("phase {} thread {} get{key:?}: {e}", pc.phase, t + 1)));
                            }
                            for s in &g.syms {
                                ids.note_sym(s.0, s.2, s.1, pc.phase, out);
                            }
                            for e in &g.ents {
                                ids.note_ent(e.0, pc.phase, out);
                            }
                        }
                        (Err(p), Ok(_)) => out.push(viol("unexpected-panic", format!("phase {} thread {} get{key:?}: {}", pc.phase, t + 1, p.text()))),
                        (_, Err(_)) => {}
                    }
                }
                TRes::Interned(want, real) => match real {
                    Ok(r) => {
                        if (r.0, r.2) != *want {
                            out.push(viol("interned-readback", format!("thread {} interned {want:?} read back {r:?}", t + 1)));
                        }
                        ids.note_sym(r.0, r.2, r.1, pc.phase, out);
                    }
                    Err(p) => out.push(viol("unexpected-panic", format!("thread {} intern{want:?}: {}", t + 1, p.text()))),
                },
                TRes::Input(val, id, back) => {
                    if val != back {
                        out.push(viol("input-readback", format!("thread {} created input with {val}, read back {back}", t + 1)));
                    }
                    ids.note_input(*id, *val, t as u32 + 1, out);
                }
                TRes::Rehandled => {}
                TRes::Tag((n, a), real) => match real {
                    Ok(v) if *v == ((*n as u32) << 8 | *a as u32) => {}
                    Ok(v) => out.push(viol("value-mismatch", format!("phase {}: key_tag({n}, {a}) = {v:#x}", pc.phase))),
                    Err(p) => out.push(viol("unexpected-panic", format!("phase {}: key_tag({n}, {a}): {}", pc.phase, p.text()))),
                },
            }
        }
    }
    // --- body log: interned values and created structs seen inside queries ---
    let mut execs: BTreeMap<DK, Vec<u32>> = BTreeMap::new();
    let mut exec_threads_per_node: BTreeMap<u8, BTreeSet<u32>> = BTreeMap::new();
    for r in log {
        match r {
            Rec::Ev(tid, Ev::WillExecute(dk)) => execs.entry(*dk).or_default().push(*tid),
            Rec::Ev(_, Ev::WillBlockOn { .. }) => {
                sh.blocked.store(true, Ordering::Relaxed);
            }
            Rec::End(rec) => {
                for (ty, x, id, _) in &rec.interned {
                    ids.note_sym(*ty, *x, *id, pc.phase, out);
                }
                for c in &rec.created {
                    ids.note_ent(c.id, pc.phase, out);
                    ids.note_created(rec.key, c.ident, c.occ, c.id, pc.phase, out);
                }
                if let LKey::Node(n, _) = rec.key {
                    exec_threads_per_node.entry(n).or_default().insert(rec.tid);
                }
            }
            _ => {}
        }
    }
    // --- C17: at most one execution per key per revision (a phase is one revision) ---
    let has_lru = prog.nodes.iter().any(|n| n.kind == Kind::Lru);
    if pc.which == Which::Readers {
        for (dk, tids) in execs.iter().filter(|_| !has_lru) {
            if tids.len() > 1 {
                out.push(viol("executed-twice-in-one-revision", format!("phase {}: key {dk:?} executed {} times (threads {tids:?})", pc.phase, tids.len())));
            }
        }
        // a key that more than one thread's plan reaches and that executed: contention was real
        if sh.blocked.load(Ordering::Relaxed) && !execs.is_empty() {
            sh.contended_exec.store(true, Ordering::Relaxed);
        }
    }
    if prog.lattice {
        let lat = Lat::new(prog, pc.model);
        for c in lat.cycles() {
            let mut ts: BTreeSet<u32> = BTreeSet::new();
            for n in &c {
                if let Some(s) = exec_threads_per_node.get(n) {
                    ts.extend(s.iter().copied());
                }
            }
            if ts.len() >= 2 {
                sh.scc_two_threads.store(true, Ordering::Relaxed);
            }
        }
    }
}

/// identity book-keeping across one whole execution (both phases)
#[derive(Default)]
struct IdBook {
    /// (type, data) -> id, per phase (= revision)
    sym_by_data: BTreeMap<(u8, u8, u32), u64>,
    sym_by_id: BTreeMap<(u8, u8, u64), u32>,
    inputs: BTreeMap<u64, (u32, u32)>,
    ents_seen: BTreeSet<u64>,
    ent_by_id: BTreeMap<(u8, u64), (LKey, u32, u32)>,
    ent_by_logical: BTreeMap<(u8, (LKey, u32, u32)), u64>,
    sym_interns: BTreeMap<(u8, u8, u32), u32>,
}

impl IdBook {
    fn note_sym(&mut self, ty: u8, data: u32, id: u64, phase: u8, out: &mut Vec<Violation>) {
        *self.sym_interns.entry((phase, ty, data)).or_default() += 1;
        if let Some(prev) = self.sym_by_data.insert((phase, ty, data), id) {
            if prev != id {
                out.push(viol("interned-equal-data-two-handles", format!("phase {phase}: type {ty} data {data} has handles {prev:#x} and {id:#x}")));
            }
        }
        // a value interned in two consecutive revisions keeps its identity (asserted for the types
        // whose retention window is >= 2 revisions; with `revisions = 1` another value interned
        // earlier in the new revision may legitimately take the slot first)
        if phase == 2 && ty >= 1 {
            if let Some(old) = self.sym_by_data.get(&(1, ty, data)) {
                if *old != id {
                    out.push(viol("interned-identity-not-kept", format!("type {ty} data {data}: handle {old:#x} in the first revision, {id:#x} in the next one")));
                }
            }
        }
        if let Some(prev) = self.sym_by_id.insert((phase, ty, id), data) {
            if prev != data {
                out.push(viol("interned-one-handle-two-data", format!("phase {phase}: type {ty} handle {id:#x} stands for data {prev} and {data}")));
            }
        }
    }
    fn note_input(&mut self, id: u64, val: u32, tid: u32, out: &mut Vec<Violation>) {
        if let Some((v0, t0)) = self.inputs.insert(id, (val, tid)) {
            out.push(viol("input-identity-reused", format!("input id {id:#x} handed out twice: value {v0} (thread {t0}) and value {val} (thread {tid})")));
        }
    }
    fn note_ent(&mut self, id: u64, _phase: u8, _out: &mut Vec<Violation>) {
        self.ents_seen.insert(id);
    }
    /// a struct created by `creator` with (identity, occurrence#) got `id` in `phase`
    fn note_created(&mut self, creator: LKey, ident: u32, occ: u32, id: u64, phase: u8, out: &mut Vec<Violation>) {
        let logical = (creator, ident, occ);
        if let Some(prev) = self.ent_by_id.insert((phase, id), logical) {
            if prev != logical {
                out.push(viol("struct-identity-shared", format!("phase {phase}: struct id {id:#x} stands for {prev:?} and {logical:?}")));
            }
        }
        if let Some(prev) = self.ent_by_logical.insert((phase, logical), id) {
            if prev != id {
                out.push(viol("struct-two-identities", format!("phase {phase}: struct {logical:?} has ids {prev:#x} and {id:#x} in one revision")));
            }
        }
    }
}

static POISONED: AtomicBool = AtomicBool::new(false);
static TASK_PANICKED: AtomicBool = AtomicBool::new(false);

pub fn run_shut_case(which: Which, case: &ShutCase) -> SeqOutcome {
    let mut outc = SeqOutcome { violations: vec![], labels: vec![], steps_run: 0, extra_evals: 0, counters: vec![], ticks: 0, fault_fired: false };
    if POISONED.load(Ordering::SeqCst) {
        // a previous Runner in this process ended in a panic: salsa's shuttle build keeps
        // shuttle primitives in statics, so nothing further can be trusted in this process
        outc.labels.push("skipped-after-fatal");
        return outc;
    }
    if let Some(p) = std::env::var_os("VH_CURRENT") {
        // crash attribution: if this process dies inside the Runner, the driver finds the case here
        let prop = std::env::var("VH_PROP").unwrap_or_default();
        let rp = crate::gdrive::GReplay { property: prop, engine: "shut".into(), config: "shuttle".into(), seed: 0, tape: vec![], gcase: case.clone(), violations: vec![], ncpu: crate::drive::ncpu() };
        let _ = std::fs::write(p, serde_json::to_string(&rp).unwrap());
    }
    let sh = Arc::new(Shared::default());
    let case_a = Arc::new(case.clone());
    let sh2 = sh.clone();
    let body = move || {
        if TASK_PANICKED.load(Ordering::SeqCst) {
            // an earlier execution of this Runner had a panic inside a task: shuttle's primitives
            // are in an inconsistent state from then on, nothing later can be trusted
            return;
        }
        if let Ok(mut g) = crate::drive::FIRST_PANIC.lock() {
            *g = None;
        }
        let case = &*case_a;
        let it = sh2.iters_done.load(Ordering::SeqCst);
        let prog = Arc::new(case.prog.clone());
        let prog_lattice = case.prog.lattice;
        let mut model = Model::new(&case.prog);
        let mut world = World::new(prog, &model.vals, model.cells.clone());
        if let Some(c) = case.lru_cap {
            let _ = world.lru_cap(c as usize);
        }
        world.take_log();
        let mut ids = IdBook::default();
        let mut v = vec![];
        salsa::verif_hooks::start();
        let mut r1 = run_phase(&world, &case.phase1);
        if case.sweep {
            let mut all: Vec<TOp> = case.prog.nodes.iter().enumerate().flat_map(|(n, node)| (0..node.nargs).map(move |a| TOp::Get { node: n as u8, arg: a })).collect();
            // the order decides which lru keys are the most recently used ones (and survive)
            let off = (case.sched_seed % all.len() as u64) as usize;
            all.rotate_left(off);
            if (case.sched_seed >> 32) & 1 == 1 {
                all.reverse();
            }
            r1.extend(run_phase(&world, &[all]));
        }
        let log1 = world.take_log();
        check_phase(&PhaseCheck { which, case, model: &model, phase: 1 }, &r1, &log1, &sh2, &mut ids, &mut v);
        // listed finding cyc-kf5 (provisional member of a vanished cycle accepted as final)
        let mut abandoned = false;
        if prog_lattice {
            let km = world.ctx.keymap.lock().unwrap().clone();
            let node_of = |id: u64| km.get(&id).map(|x| x.0);
            abandoned = crate::props::cyc::abandoned_member_signature(&log1, &node_of);
        }
        // listed finding cyc-kf1: a cycle finalized in phase 1 while the dependency list of one
        // of its heads was still changing -> stale members are possible in phase 2
        let mut unstable = false;
        let mut proto = crate::props::c19::ProtoCheck::default();
        {
            use salsa::verif_hooks::TraceEvent as T;
            let mut last: BTreeMap<(u32, u64), bool> = BTreeMap::new();
            let evs = salsa::verif_hooks::drain();
            proto.feed(&evs, &mut v);
            proto.finish(&mut v);
            let mut conv: BTreeMap<(u32, u64), (bool, bool)> = BTreeMap::new();
            for h in evs {
                if let T::CycleHead { ingredient, key, finalized, deps_stable, value_converged, metadata_converged, heads, .. } = h {
                    last.insert((ingredient, key), deps_stable);
                    conv.insert((ingredient, key), (value_converged, metadata_converged));
                    if finalized {
                        if let Some((k, (vc, mc))) = conv.iter().find(|(k, (vc, mc))| heads.contains(k) && (!*vc || !*mc)) {
                            v.push(viol("cycle-finalized-before-convergence", format!("cycle finalized although head {k:?} had value_converged={vc} metadata_converged={mc} in its last iteration")));
                        }
                        for k in &heads {
                            conv.remove(k);
                        }
                        if last.values().any(|s| !*s) {
                            unstable = true;
                        }
                        last.clear();
                    }
                }
            }
        }
        if let Some((slot, field, val)) = case.write {
            if let Err(p) = world.set(slot, field, val, None) {
                v.push(viol("unexpected-panic", format!("main-thread write: {}", p.text())));
            }
            model.vals[slot as usize][field as usize].0 = val;
            world.take_log();
            salsa::verif_hooks::start();
            let r2 = run_phase(&world, &case.phase2);
            let log2 = world.take_log();
            let before = v.len();
            check_phase(&PhaseCheck { which, case, model: &model, phase: 2 }, &r2, &log2, &sh2, &mut ids, &mut v);
            let evs = salsa::verif_hooks::drain();
            proto.feed(&evs, &mut v);
            proto.finish(&mut v);
            if unstable && prog_lattice {
                for x in v[before..].iter_mut() {
                    if x.rule == "value-mismatch" {
                        x.rule = crate::props::cyc::KF_STALE_DEPS.to_string();
                    }
                }
            }
            if prog_lattice {
                let km = world.ctx.keymap.lock().unwrap().clone();
                let node_of = |id: u64| km.get(&id).map(|x| x.0);
                if crate::props::cyc::abandoned_member_signature(&log2, &node_of) {
                    abandoned = true;
                }
            }
        }
        if abandoned {
            for x in v.iter_mut() {
                if x.rule == "value-mismatch" {
                    x.rule = crate::props::cyc::KF_ABANDONED.to_string();
                }
            }
        }
        sh2.proto_blocks.fetch_add(proto.blocks, Ordering::Relaxed);
        sh2.proto_transfers.fetch_add(proto.transfers, Ordering::Relaxed);
        sh2.proto_bad_wakes.fetch_add(proto.wakes_not_completed, Ordering::Relaxed);
        // same new value interned by more than one requester in one revision
        if ids.sym_interns.values().any(|c| *c >= 2) {
            sh2.same_value_race.store(true, Ordering::Relaxed);
        }
        // identities: two threads obtained inputs from the same page (page index = index >> 7; Id bits = index + 1 in the low word)
        let mut page_threads: BTreeMap<u64, BTreeSet<u32>> = BTreeMap::new();
        for (id, (_, t)) in &ids.inputs {
            page_threads.entry(((id & 0xFFFF_FFFF) - 1) >> 7).or_default().insert(*t);
        }
        if page_threads.values().any(|s| s.len() >= 2) {
            sh2.page_shared.store(true, Ordering::Relaxed);
        }
        drop(world);
        let first_panic = crate::drive::FIRST_PANIC.lock().ok().and_then(|g| g.clone());
        if let Some(msg) = first_panic {
            // report the root panic only; other panics, mismatches and protocol complaints of this
            // execution are its consequences
            v.clear();
            v.push(viol("unexpected-panic", format!("first panic of the execution: {}", msg.replace('\n', " ").chars().take(500).collect::<String>())));
            TASK_PANICKED.store(true, Ordering::SeqCst);
        }
        if !v.is_empty() {
            let mut g = sh2.violations.lock().unwrap();
            for x in v {
                g.push((it, x));
            }
        }
        sh2.iters_done.fetch_add(1, Ordering::SeqCst);
    };
    let mut cfg = shuttle::Config::new();
    cfg.stack_size = 1 << 20;
    cfg.max_steps = shuttle::MaxSteps::FailAfter(2_000_000);
    cfg.failure_persistence = shuttle::FailurePersistence::None;
    cfg.silence_warnings = true;
    let iterations = case.iterations.max(1) as usize;
    let res = catch_unwind(AssertUnwindSafe(|| {
        if case.sched == 0 {
            shuttle::Runner::new(RandomScheduler::new_from_seed(case.sched_seed, iterations), cfg).run(body);
        } else {
            shuttle::Runner::new(PctScheduler::new_from_seed(case.sched_seed, case.sched as usize, iterations), cfg).run(body);
        }
    }));
    let done = sh.iters_done.load(Ordering::SeqCst);
    outc.steps_run = done as usize;
    outc.extra_evals = done.saturating_sub(1);
    let task_panicked = TASK_PANICKED.load(Ordering::SeqCst);
    if task_panicked {
        POISONED.store(true, Ordering::SeqCst);
    }
    if let (Err(p), false) = (res, task_panicked) {
        POISONED.store(true, Ordering::SeqCst);
        let msg = classify_panic(p).text();
        let rule = if msg.contains("deadlock") {
            "deadlock"
        } else if msg.contains("exceeded max_steps") || msg.contains("max steps") || msg.contains("step bound") {
            "step-bound-exceeded"
        } else {
            "panic-under-shuttle"
        };
        outc.violations.push(viol(rule, format!("schedule #{done} (scheduler {} seed {}): {}", case.sched, case.sched_seed, msg.chars().take(600).collect::<String>())));
    }
    for (it, mut v) in std::mem::take(&mut *sh.violations.lock().unwrap()) {
        v.detail = format!("schedule #{it}: {}", v.detail);
        outc.violations.push(v);
    }
    let nt = match which {
        Which::Readers => sh.blocked.load(Ordering::Relaxed),
        Which::Cycles => sh.scc_two_threads.load(Ordering::Relaxed),
        Which::Interning => sh.same_value_race.load(Ordering::Relaxed),
        Which::Identities => sh.page_shared.load(Ordering::Relaxed),
        Which::Proto => sh.proto_blocks.load(Ordering::Relaxed) > 0 && sh.proto_transfers.load(Ordering::Relaxed) > 0,
    };
    if nt {
        outc.labels.push("nontrivial");
    }
    if sh.blocked.load(Ordering::Relaxed) {
        outc.labels.push("some-thread-blocked");
    }
    if sh.contended_exec.load(Ordering::Relaxed) {
        outc.labels.push("contended-key-executed");
    }
    if sh.scc_two_threads.load(Ordering::Relaxed) {
        outc.labels.push("scc-executed-by-two-threads");
    }
    if sh.same_value_race.load(Ordering::Relaxed) {
        outc.labels.push("same-value-interned-by-several");
    }
    if case.write.is_some() {
        outc.labels.push("two-phases");
    }
    if case.sweep {
        outc.labels.push("phase-2-validates-existing-memos");
    }
    if case.lru_cap.is_some() {
        outc.labels.push(if case.write.is_some() { "lru-evicting-write-between-phases" } else { "lru-program" });
    }
    if case.phase1.iter().flatten().any(|o| matches!(o, TOp::Tag { .. })) {
        outc.labels.push("second-function-on-shared-input");
    }
    outc.labels.push(if case.sched == 0 { "sched-random" } else { "sched-pct" });
    outc.counters.push(("schedules", done));
    outc.counters.push(("protocol_blocks", sh.proto_blocks.load(Ordering::Relaxed)));
    outc.counters.push(("protocol_transfers", sh.proto_transfers.load(Ordering::Relaxed)));
    if sh.proto_transfers.load(Ordering::Relaxed) > 0 {
        outc.labels.push("trace-has-transfer");
    }
    if let Some(p) = std::env::var_os("VH_CURRENT") {
        if outc.violations.is_empty() {
            let _ = std::fs::remove_file(p);
        }
    }
    outc
}

/// Which oracle rules belong to which property (the same engine run serves several properties;
/// a property's check must not raise an alarm for a rule another property owns).
pub fn rule_belongs(prop: &str, rule: &str) -> bool {
    let termination = matches!(rule, "deadlock" | "step-bound-exceeded" | "panic-under-shuttle" | "unexpected-panic");
    match prop {
        "C16" => termination || rule == "value-mismatch",
        "C17" => rule == "executed-twice-in-one-revision",
        "C18" => termination || rule == "value-mismatch" || rule == "cycle-finalized-before-convergence" || rule.starts_with("kf:"),
        "C08" => rule.starts_with("interned-"),
        "C19" => rule.starts_with("c19-"),
        "C24" => rule.starts_with("input-") || rule.starts_with("struct-") || rule.starts_with("interned-") || rule == "unexpected-panic" || rule == "panic-under-shuttle",
        _ => true,
    }
}

pub fn which_of(prop: &str) -> Option<Which> {
    match prop {
        "C16" | "C17" => Some(Which::Readers),
        "C18" => Some(Which::Cycles),
        "C08" => Some(Which::Interning),
        "C24" => Some(Which::Identities),
        "C19" => Some(Which::Proto),
        _ => None,
    }
}

//! Observation: the event/body log. Everything an oracle knows about what salsa did comes from
//! here (salsa `Event`s via the storage callback + records written by the body interpreter).

use serde::{Deserialize, Serialize};

/// Logical key of a tracked-function execution.
#[derive(Clone, Copy, Debug, PartialEq, Eq, Hash, PartialOrd, Ord, Serialize, Deserialize)]
pub enum LKey {
    /// (node, arg) — plain/noeq/ref/zero/two/lru/fix/... nodes
    Node(u8, u8),
    /// on_ent(e): salsa `Id` bits of the tracked struct
    OnEnt(u64),
    OnEntSpec(u64),
    /// on_sym{1,2}(s): (type, `Id` bits)
    OnSym(u8, u64),
}

/// salsa `DatabaseKeyIndex` in comparable form
#[derive(Clone, Copy, Debug, PartialEq, Eq, Hash, PartialOrd, Ord)]
pub struct DK {
    pub ing: salsa::IngredientIndex,
    pub id: u64,
}

impl From<salsa::DatabaseKeyIndex> for DK {
    fn from(k: salsa::DatabaseKeyIndex) -> DK {
        DK { ing: k.ingredient_index(), id: k.key_index().as_bits() }
    }
}

#[derive(Clone, Debug, PartialEq, Eq)]
pub enum Ev {
    WillExecute(DK),
    DidValidate(DK),
    WillBlockOn { key: DK },
    WillIterate(DK, u8),
    DidFinalize(DK, u8),
    WillCheckCancel,
    DidSetCancel,
    WillDiscardStale { exec: DK, out: DK },
    DidDiscard(DK),
    DidDiscardAcc { exec: DK },
    DidIntern(DK),
    DidReuseInterned(DK),
    DidValidateInterned(DK),
}

#[derive(Clone, Debug, Default, PartialEq, Eq, Serialize, Deserialize)]
pub struct OutRepr {
    pub v: u32,
    pub ents: Vec<u64>,
    pub syms: Vec<(u8, u64)>,
}

/// logical identity of a tracked struct: (creator, identity value, occurrence#)
#[derive(Clone, Copy, Debug, PartialEq, Eq, Hash, PartialOrd, Ord, Serialize, Deserialize)]
pub struct LEnt {
    pub creator: LKey,
    pub ident: u32,
    pub occ: u32,
}

#[derive(Clone, Debug, PartialEq, Eq)]
pub struct Created {
    pub ident: u32,
    pub occ: u32,
    pub id: u64,
    pub tv: u32,
    pub tn: u32,
    /// had the body read anything tracked before creating (durability stamp LOW vs read-free)
    pub after_read: bool,
    /// durability (0 LOW .. 3 NEVER_CHANGE) the creator had accumulated when it created the
    /// struct, computed by the body interpreter with salsa's rules (min over reads so far)
    pub dur: u8,
}

#[derive(Clone, Debug, PartialEq, Eq)]
pub struct ExecRec {
    pub key: LKey,
    pub tid: u32,
    pub reads: Vec<(u8, u8)>,
    pub calls: Vec<LKey>,
    /// (ent id, which) for tracked fields (1 tv, 2 tn); identity reads are (id, 0)
    pub ent_reads: Vec<(u64, u8)>,
    pub created: Vec<Created>,
    /// (type, data, id, after_read)
    pub interned: Vec<(u8, u32, u64, bool)>,
    pub sym_reads: Vec<(u8, u64)>,
    pub untracked: bool,
    pub pushed: Vec<u32>,
    pub specified: Vec<(u64, u32)>,
    pub out: OutRepr,
    /// durability of the whole execution (what salsa stores in the memo)
    pub dur: u8,
}

impl ExecRec {
    pub fn new(key: LKey, tid: u32) -> Self {
        ExecRec {
            key,
            tid,
            reads: vec![],
            calls: vec![],
            ent_reads: vec![],
            created: vec![],
            interned: vec![],
            sym_reads: vec![],
            untracked: false,
            pushed: vec![],
            specified: vec![],
            out: OutRepr::default(),
            dur: 3,
        }
    }
}

#[derive(Clone, Debug, PartialEq, Eq)]
pub enum Rec {
    Ev(u32, Ev),
    Start(LKey, u32),
    End(Box<ExecRec>),
    /// a call of a node returned (fetch completed): (key, tid)
    Used(LKey, u32),
    /// a tracked struct was created (logged at creation time): (creator, record)
    Made(LKey, Created),
    /// harness marker: history step index about to run, current revision counter
    Step(usize, u32),
    /// coop engine markers: a top-level call of thread `tid` begins / ends (call index)
    CallBegin(u32, u32),
    CallEnd(u32, u32),
    /// coop engine: `token.cancel()` of thread `tid` was delivered by the scheduler
    CancelDelivered(u32),
    /// coop engine: a `WillCheckCancellation` event on thread `tid`
    CheckCancel(u32),
}

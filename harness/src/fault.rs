//! Global fault-injection counter (C22) and per-thread ids. Every user-code site salsa can call
//! ticks the counter; when armed, the k-th tick panics with `Injected`.

use std::cell::Cell;
use std::sync::atomic::{AtomicI64, AtomicU64, Ordering};

#[derive(Clone, Copy, Debug, PartialEq, Eq, Hash, PartialOrd, Ord, serde::Serialize, serde::Deserialize)]
pub enum Site {
    BodyStart,
    Op,
    OutEq,
    FieldEq,
    FieldHash,
    CycleFn,
    CycleInitial,
    Callback,
}

/// payload of an injected panic
#[derive(Debug)]
pub struct Injected(pub u64, pub Site);

static COUNT: AtomicU64 = AtomicU64::new(0);
/// -1 = disarmed
static TARGET: AtomicI64 = AtomicI64::new(-1);
static LAST_SITE: AtomicU64 = AtomicU64::new(0);
static FIRED: std::sync::atomic::AtomicBool = std::sync::atomic::AtomicBool::new(false);
/// per-site tick counts of the current run (index = Site as usize)
static SITE_COUNTS: [AtomicU64; 8] = [const { AtomicU64::new(0) }; 8];

#[cfg(not(feature = "shuttle"))]
thread_local! {
    pub static TID: Cell<u32> = const { Cell::new(0) };
}
// shuttle runs all tasks on one OS thread: task-local storage must come from shuttle
#[cfg(feature = "shuttle")]
shuttle::thread_local! {
    pub static TID: Cell<u32> = Cell::new(0);
}

pub fn tid() -> u32 {
    TID.with(|t| t.get())
}
pub fn set_tid(v: u32) {
    TID.with(|t| t.set(v))
}

#[inline]
pub fn tick(site: Site) {
    let t = TARGET.load(Ordering::Relaxed);
    if t == -2 {
        return;
    }
    let c = COUNT.fetch_add(1, Ordering::Relaxed);
    SITE_COUNTS[site as usize].fetch_add(1, Ordering::Relaxed);
    if t >= 0 && c == t as u64 {
        LAST_SITE.store(site as u64, Ordering::Relaxed);
        FIRED.store(true, Ordering::SeqCst);
        FIRED_EVENT.store(if matches!(site, Site::Callback) { LAST_EVENT.load(Ordering::Relaxed) } else { 0 }, Ordering::SeqCst);
        std::panic::panic_any(Injected(c, site));
    }
}

/// reset the counter; `target = Some(k)` arms a panic at the k-th tick
pub fn reset(target: Option<u64>) {
    COUNT.store(0, Ordering::SeqCst);
    FIRED.store(false, Ordering::SeqCst);
    for c in &SITE_COUNTS {
        c.store(0, Ordering::SeqCst);
    }
    TARGET.store(target.map(|k| k as i64).unwrap_or(-1), Ordering::SeqCst);
}

/// stop counting entirely (used while the harness itself compares values)
pub fn pause() -> i64 {
    TARGET.swap(-2, Ordering::SeqCst)
}
pub fn resume(prev: i64) {
    TARGET.store(prev, Ordering::SeqCst);
}

pub fn count() -> u64 {
    COUNT.load(Ordering::SeqCst)
}
pub fn disarm() {
    TARGET.store(-1, Ordering::SeqCst);
}

/// has the armed fault been raised since the last `reset`?
pub fn fired() -> bool {
    FIRED.load(Ordering::SeqCst)
}
pub fn last_site() -> Site {
    site_from(LAST_SITE.load(Ordering::SeqCst) as usize)
}
pub fn site_from(i: usize) -> Site {
    [Site::BodyStart, Site::Op, Site::OutEq, Site::FieldEq, Site::FieldHash, Site::CycleFn, Site::CycleInitial, Site::Callback][i.min(7)]
}
pub fn site_counts() -> [u64; 8] {
    let mut a = [0; 8];
    for (i, c) in SITE_COUNTS.iter().enumerate() {
        a[i] = c.load(Ordering::SeqCst);
    }
    a
}

/// discriminant of the salsa event whose delivery ticked the `Callback` site last
/// (1 = WillDiscardStaleOutput, 2 = DidDiscard, 3 = DidDiscardAccumulated, 0 = anything else)
static LAST_EVENT: AtomicU64 = AtomicU64::new(0);
static FIRED_EVENT: AtomicU64 = AtomicU64::new(0);
pub fn note_event(kind: u64) {
    LAST_EVENT.store(kind, Ordering::Relaxed);
}
/// event kind being delivered when the armed fault fired at the `Callback` site
pub fn fired_event() -> u64 {
    FIRED_EVENT.load(Ordering::SeqCst)
}

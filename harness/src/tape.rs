//! The choice tape: the single source of randomness for every generated object.
//!
//! A tape is a `Vec<u32>`; decoders consume it left to right. An exhausted tape yields 0, and
//! every decoder maps 0 to its simplest alternative, so proptest's `Vec<u32>` shrinking (drop
//! elements, shrink numbers toward 0) shrinks programs, histories and schedules as one value.

pub struct Tape<'a> {
    data: &'a [u32],
    pos: usize,
}

impl<'a> Tape<'a> {
    pub fn new(data: &'a [u32]) -> Self {
        Tape { data, pos: 0 }
    }

    #[inline]
    pub fn raw(&mut self) -> u32 {
        let v = self.data.get(self.pos).copied().unwrap_or(0);
        self.pos += 1;
        v
    }

    /// Uniform-ish pick in `0..n`, monotone in the raw value (so shrinking the raw value shrinks
    /// the pick). `n == 0` returns 0.
    #[inline]
    pub fn pick(&mut self, n: u32) -> u32 {
        if n <= 1 {
            // still consume one element so the tape layout does not depend on n
            self.raw();
            return 0;
        }
        ((self.raw() as u64 * n as u64) >> 32) as u32
    }

    /// Index into a weight table; index 0 should be the simplest alternative.
    pub fn weighted(&mut self, w: &[u32]) -> usize {
        let total: u32 = w.iter().sum();
        if total == 0 {
            self.raw();
            return 0;
        }
        let mut x = self.pick(total);
        for (i, &wi) in w.iter().enumerate() {
            if x < wi {
                return i;
            }
            x -= wi;
        }
        w.len() - 1
    }

    /// True with probability num/den; false is the "simple" outcome.
    pub fn chance(&mut self, num: u32, den: u32) -> bool {
        // high raw values -> true, so shrinking toward 0 turns the feature off
        self.pick(den) >= den - num.min(den)
    }

    pub fn exhausted(&self) -> bool {
        self.pos >= self.data.len()
    }

    pub fn consumed(&self) -> usize {
        self.pos
    }
}

/// splitmix64 — used only to derive per-job seeds and tape contents from VERIF_SEED in places
/// where proptest is not the driver (replayable: pure function of the seed).
pub fn splitmix(state: &mut u64) -> u64 {
    *state = state.wrapping_add(0x9E37_79B9_7F4A_7C15);
    let mut z = *state;
    z = (z ^ (z >> 30)).wrapping_mul(0xBF58_476D_1CE4_E5B9);
    z = (z ^ (z >> 27)).wrapping_mul(0x94D0_49BB_1331_11EB);
    z ^ (z >> 31)
}

pub fn fnv1a(bytes: &[u8]) -> u64 {
    let mut h: u64 = 0xcbf29ce484222325;
    for &b in bytes {
        h ^= b as u64;
        h = h.wrapping_mul(0x100000001b3);
    }
    h
}

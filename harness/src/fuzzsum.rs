//! Summary bookkeeping for the libFuzzer targets: the target calls `note` once per execution; the
//! accumulated summary (same shape as the other engines' worker summaries) is written to the
//! file named by `VH_FUZZ_SUMMARY` every 256 executions, so that the driver finds it after
//! libFuzzer has left through `exit()`.

use std::collections::{BTreeMap, BTreeSet};
use std::sync::Mutex;

use crate::drive::Summary;

#[derive(Default)]
struct St {
    cases: u64,
    steps: u64,
    nontrivial: BTreeSet<u64>,
    labels: BTreeMap<String, u64>,
    samples: Vec<serde_json::Value>,
}

static ST: Mutex<Option<St>> = Mutex::new(None);

pub fn note(prop: &str, nontrivial: bool, hash: u64, steps: u64, labels: &[&'static str], sample: impl FnOnce() -> serde_json::Value) {
    let mut g = ST.lock().unwrap_or_else(|e| e.into_inner());
    let st = g.get_or_insert_with(St::default);
    st.cases += 1;
    st.steps += steps;
    for l in labels {
        *st.labels.entry(l.to_string()).or_default() += 1;
    }
    if nontrivial && st.nontrivial.len() < 2_000_000 && st.nontrivial.insert(hash) && st.samples.len() < 3 && st.cases % 7 == 0 {
        st.samples.push(sample());
    }
    if st.cases % 256 == 0 || st.cases == 1 {
        if let Some(p) = std::env::var_os("VH_FUZZ_SUMMARY") {
            let sum = Summary {
                property: prop.into(),
                engine: "fuzz".into(),
                cases: st.cases,
                steps: st.steps,
                nontrivial_hashes: st.nontrivial.iter().copied().collect(),
                labels: st.labels.clone(),
                samples: st.samples.clone(),
                ..Default::default()
            };
            let tmp = format!("{}.tmp", p.to_string_lossy());
            if std::fs::write(&tmp, serde_json::to_string(&sum).unwrap()).is_ok() {
                let _ = std::fs::rename(&tmp, &p);
            }
        }
    }
}

//! Program / History AST, generators (tape decoders) and JSON (de)serialisation for replay files.

use crate::tape::Tape;
use serde::{Deserialize, Serialize};

pub const VMOD: u32 = 4;

/// Non-commutative combiner over 0..4: order of evaluation matters, collisions are frequent.
#[inline]
pub fn mix(a: u32, b: u32) -> u32 {
    (a.wrapping_mul(3).wrapping_add(b).wrapping_add(1)) % VMOD
}

/// Masks selected by an input value (lattice programs).
pub const MASKS: [u32; 4] = [0xFF, 0x0F, 0x33, 0x55];
pub const MAXCAP: u32 = 4;
pub const SAT_MASKS: [u32; 8] = [0x01, 0x02, 0x04, 0x08, 0x03, 0x0C, 0x0F, 0xFF];

#[derive(Clone, Copy, Debug, PartialEq, Eq, Hash, PartialOrd, Ord, Serialize, Deserialize)]
pub enum D {
    Low,
    Med,
    High,
    Never,
}

impl D {
    pub fn from_idx(i: usize) -> D {
        [D::Low, D::Med, D::High, D::Never][i.min(3)]
    }
    pub fn idx(self) -> usize {
        self as usize
    }
}

#[derive(Clone, Copy, Debug, PartialEq, Eq, Hash, PartialOrd, Ord, Serialize, Deserialize)]
pub enum Kind {
    Plain,
    NoEq,
    Ref,
    Zero,
    Two,
    Lru,
    // cyclic kinds (lattice programs)
    Fix,
    FixJoin,
    Fall,
    Div,
}
pub const N_KINDS: usize = 10;
pub const ALL_KINDS: [Kind; N_KINDS] = [
    Kind::Plain,
    Kind::NoEq,
    Kind::Ref,
    Kind::Zero,
    Kind::Two,
    Kind::Lru,
    Kind::Fix,
    Kind::FixJoin,
    Kind::Fall,
    Kind::Div,
];

#[derive(Clone, Copy, Debug, PartialEq, Eq, Hash, Serialize, Deserialize)]
pub enum Src {
    Const(u32),
    Acc,
}

#[derive(Clone, Debug, PartialEq, Eq, Hash, Serialize, Deserialize)]
pub enum Op {
    Read { slot: u8, field: u8 },
    Call { node: u8, arg: Src },
    If { slot: u8, field: u8, thr: u32, then: Vec<Op>, els: Vec<Op> },
    NewEnt { ident: Src },
    /// which: 0 ident, 1 tracked `tv`, 2 tracked no_eq `tn`
    EntField { h: u8, which: u8 },
    CallOnEnt { h: u8 },
    CallOnEntSpec { h: u8 },
    Specify { h: u8, val: Src },
    /// specify on any struct in the pool (panics if it was not created by this execution)
    SpecifyAny { h: u8, val: Src },
    /// ty: 0 Sym1 (revisions=1), 1 Sym2 (=2), 2 Sym3 (default), 3 SymImm (usize::MAX)
    Intern { ty: u8, x: Src },
    SymField { h: u8 },
    CallOnSym { h: u8 },
    Untracked { cell: u8 },
    Acc,
    // lattice-only ops
    /// acc |= call & MASKS[input]
    CallMask { node: u8, arg: Src, slot: u8, field: u8 },
    /// acc |= (call << 1) & 0xFF
    CallShift { node: u8, arg: Src },
    /// acc = min(call + 1, cap(input)) (cap value 3 = unbounded); Div nodes only
    CallInc { node: u8, arg: Src, slot: u8, field: u8 },
    /// acc = !call & 1 ; Div self-loop oscillator
    CallNot { node: u8, arg: Src },
    /// saturating short-circuit: `if acc & mask != mask { acc |= call & mask }`. The value is that
    /// of `acc |= call & mask` (a call that cannot contribute is skipped), but the *dependency* is
    /// value-dependent: it disappears once the earlier ops of the body have produced the masked
    /// bits, e.g. in a later fixpoint iteration. Fix / FixJoin programs only.
    CallSat { node: u8, arg: Src, mask: u32 },
    /// max-plus programs only (`Program::maxplus`; values are integers 0..=MAXCAP, join = max):
    /// stop if acc == MAXCAP; skip if acc < guard; else acc = max(acc, min(call + add, MAXCAP)).
    /// Monotone, so the reference is the least fixpoint; both the guard and the saturation make
    /// the dependency value-dependent (edges appear and disappear between iterations).
    CallMax { node: u8, arg: Src, add: u32, guard: u32 },
    /// max-plus programs: `if acc < below { untracked read; acc = max(acc, min(cell, below)) }` —
    /// monotone (a skipped read could not have contributed), and the read typically happens only
    /// in the early iterations of a fixpoint
    UntrackedBelow { cell: u8, below: u32 },
}

#[derive(Clone, Debug, PartialEq, Eq, Hash, Serialize, Deserialize)]
pub struct Node {
    pub kind: Kind,
    pub nargs: u8,
    pub body: Vec<Op>,
    /// return the handles (tracked structs / interned values) in the pool
    pub ret_h: bool,
}

#[derive(Clone, Debug, PartialEq, Eq, Hash, Serialize, Deserialize)]
pub struct Program {
    /// per slot: [(initial value, durability); 2]
    pub slots: Vec<[(u32, D); 2]>,
    pub cells: Vec<u32>,
    pub nodes: Vec<Node>,
    /// nodes with index < base never call special functions; special bodies only call those
    pub base: u8,
    pub on_ent: Vec<Op>,
    pub on_ent_spec: Vec<Op>,
    pub on_sym: Vec<Op>,
    /// lattice (cyclic) program: values are bit-sets, ops are monotone
    pub lattice: bool,
    /// identity fields of tracked structs hash only their low bit (different identity values
    /// collide: salsa has to tell them apart by equality and bump the id generation in place)
    #[serde(default)]
    pub coarse_hash: bool,
    /// reclaimable interned values hash by value instead of with a constant (one shard is then
    /// only guaranteed for workers pinned to one core)
    #[serde(default)]
    pub sym_hash: bool,
    /// lattice programs over integers 0..=MAXCAP with max as join (`Read` = max with the field
    /// value, `Call` = max with the callee, `CallMax`)
    #[serde(default)]
    pub maxplus: bool,
}

#[derive(Clone, Debug, PartialEq, Eq, Hash, Serialize, Deserialize)]
pub enum Step {
    Set { slot: u8, field: u8, val: u32, dur: Option<D> },
    Synth { dur: D },
    SetCell { cell: u8, val: u32, dur: D },
    Get { node: u8, arg: u8 },
    GetAcc { node: u8, arg: u8 },
    Evict,
    LruCap { node: u8, cap: u8 },
    InternTop { ty: u8, x: u32 },
    /// compare every key against a freshly built database holding the model's inputs
    Fresh,
    /// (persist config) serialize the database, deserialize into a fresh one, continue there
    Snapshot,
}

#[derive(Clone, Debug, PartialEq, Eq, Hash, Serialize, Deserialize)]
pub struct Case {
    pub prog: Program,
    pub hist: Vec<Step>,
}

impl Case {
    pub fn hash(&self) -> u64 {
        let s = serde_json::to_vec(self).unwrap();
        crate::tape::fnv1a(&s)
    }
}

/// Generator weights. Index 0 of every table is the simplest alternative.
#[derive(Clone, Debug)]
pub struct Profile {
    pub max_slots: u32,
    pub max_cells: u32,
    pub max_nodes: u32,
    pub max_ops: u32,
    pub max_steps: u32,
    pub min_steps: u32,
    pub max_nargs: u32,
    pub lru_nargs: u32,
    pub kinds: [u32; N_KINDS],
    // op weights (acyclic): read, call, if, newent, entfield, callonent, callonentspec, specify,
    // intern, symfield, callonsym, untracked, acc
    pub ops: [u32; 13],
    pub special_ops: [u32; 13],
    pub durs: [u32; 4],
    /// percent of Set steps that carry an explicit durability
    pub set_dur_pct: u32,
    pub set_durs: [u32; 4],
    // step weights: get, set, synth, setcell, getacc, evict, lrucap, interntop, fresh
    pub steps: [u32; 9],
    /// insert one Snapshot step at a tape-chosen position (C26)
    pub snapshot: bool,
    pub sym_types: [u32; 4],
    pub ident_dom: u32,
    pub sym_dom: u32,
    pub ret_h_pct: u32,
    pub lattice: bool,
    /// C09 shape: first half of the nodes are 'mk' nodes (reads, then interns), the rest readers
    pub intern_shape: bool,
    /// percent of Specify ops generated as SpecifyAny
    pub specify_any_pct: u32,
    /// percent of programs whose struct identity fields use the coarse (colliding) hash
    pub coarse_hash_pct: u32,
    /// percentage of history positions (lattice programs) that become an episode
    /// `Get x · Set <a field guarding some If> · Get x · Get <static callees of x>`:
    /// entry, reshape of the call graph, re-entry, members visited on their own
    pub episode_pct: u32,
    /// percentage of lattice programs that are restricted to Fix/FixJoin functions and use
    /// `CallSat` (value-dependent dependencies)
    pub sat_pct: u32,
    /// percentage of programs with the "specify shape": creators that create a struct and specify
    /// `on_ent_spec` for it under an input-dependent condition, an `on_ent_spec` body that reads
    /// inputs, readers that call a creator and then `on_ent_spec` on its struct
    pub spec_shape_pct: u32,
    pub sym_hash_pct: u32,
    /// percentage of lattice programs generated as max-plus programs (Fix functions only)
    pub maxplus_pct: u32,
}

impl Profile {
    pub fn base() -> Profile {
        Profile {
            max_slots: 4,
            max_cells: 2,
            max_nodes: 8,
            max_ops: 6,
            max_steps: 24,
            min_steps: 2,
            max_nargs: 3,
            lru_nargs: 8,
            kinds: [6, 2, 2, 1, 2, 2, 0, 0, 0, 0],
            ops: [6, 6, 3, 3, 3, 2, 0, 0, 3, 2, 2, 2, 0],
            special_ops: [4, 3, 2, 0, 4, 0, 0, 0, 0, 4, 0, 1, 0],
            durs: [7, 1, 1, 0],
            set_dur_pct: 0,
            set_durs: [1, 1, 1, 0],
            steps: [8, 6, 1, 1, 0, 0, 0, 1, 1],
            snapshot: false,
            sym_types: [3, 3, 2, 1],
            ident_dom: 3,
            sym_dom: 6,
            ret_h_pct: 50,
            lattice: false,
            intern_shape: false,
            specify_any_pct: 0,
            coarse_hash_pct: 0,
            episode_pct: 0,
            sat_pct: 0,
            spec_shape_pct: 0,
            sym_hash_pct: 0,
            maxplus_pct: 0,
        }
    }
}

struct G<'a, 't> {
    t: &'a mut Tape<'t>,
    pf: &'a Profile,
    nslots: u32,
    ncells: u32,
}

impl G<'_, '_> {
    fn src(&mut self, dom: u32) -> Src {
        if self.t.chance(1, 2) { Src::Acc } else { Src::Const(self.t.pick(dom)) }
    }

    fn slot_field(&mut self) -> (u8, u8) {
        (self.t.pick(self.nslots) as u8, self.t.pick(2) as u8)
    }

    /// `callable`: nodes with index < callable may be called; `special`: body of a special fn
    fn ops(&mut self, n: u32, callable: u32, allow_special_calls: bool, special: bool, depth: u32) -> Vec<Op> {
        let mut v = Vec::new();
        let w = if special { self.pf.special_ops } else { self.pf.ops };
        for _ in 0..n {
            let mut k = self.t.weighted(&w);
            if (k == 1 && callable == 0) || (k == 2 && depth >= 2) {
                k = 0;
            }
            if !allow_special_calls && matches!(k, 5 | 6 | 10) {
                k = 0;
            }
            if self.ncells == 0 && k == 11 {
                k = 0;
            }
            let op = match k {
                0 => {
                    let (slot, field) = self.slot_field();
                    Op::Read { slot, field }
                }
                1 => Op::Call { node: self.t.pick(callable) as u8, arg: self.src(self.pf.max_nargs) },
                2 => {
                    let (slot, field) = self.slot_field();
                    let thr = 1 + self.t.pick(VMOD - 1);
                    let nt = self.t.pick(3);
                    let ne = self.t.pick(3);
                    let then = self.ops(nt, callable, allow_special_calls, special, depth + 1);
                    let els = self.ops(ne, callable, allow_special_calls, special, depth + 1);
                    Op::If { slot, field, thr, then, els }
                }
                3 => Op::NewEnt { ident: self.src(self.pf.ident_dom) },
                4 => Op::EntField { h: self.t.pick(4) as u8, which: self.t.pick(3) as u8 },
                5 => Op::CallOnEnt { h: self.t.pick(4) as u8 },
                6 => Op::CallOnEntSpec { h: self.t.pick(4) as u8 },
                7 => {
                    let h = self.t.pick(4) as u8;
                    let val = self.src(VMOD);
                    // inside a function on a struct the only struct at hand is the argument, which
                    // the *caller* created: specifying it must be rejected
                    if special || self.t.pick(100) < self.pf.specify_any_pct { Op::SpecifyAny { h, val } } else { Op::Specify { h, val } }
                }
                8 => Op::Intern { ty: self.t.weighted(&self.pf.sym_types) as u8, x: self.src(self.pf.sym_dom) },
                9 => Op::SymField { h: self.t.pick(4) as u8 },
                10 => Op::CallOnSym { h: self.t.pick(4) as u8 },
                11 => Op::Untracked { cell: self.t.pick(self.ncells) as u8 },
                _ => Op::Acc,
            };
            v.push(op);
        }
        v
    }
}

pub fn gen_program(t: &mut Tape, pf: &Profile) -> Program {
    if pf.lattice {
        return gen_lattice_program(t, pf);
    }
    if pf.intern_shape {
        return gen_intern_program(t, pf);
    }
    if pf.spec_shape_pct > 0 && t.pick(100) < pf.spec_shape_pct {
        return gen_spec_program(t, pf);
    }
    let nslots = 1 + t.pick(pf.max_slots);
    let ncells = if pf.max_cells == 0 { 0 } else { t.pick(pf.max_cells + 1) };
    let mut slots = Vec::new();
    for _ in 0..nslots {
        let mut s = [(0, D::Low); 2];
        for f in &mut s {
            *f = (t.pick(VMOD), D::from_idx(t.weighted(&pf.durs)));
        }
        slots.push(s);
    }
    let cells = (0..ncells).map(|_| t.pick(VMOD)).collect();
    let nnodes = 1 + t.pick(pf.max_nodes);
    let base = (nnodes + 1) / 2;
    let mut g = G { t, pf, nslots, ncells };
    let mut nodes = Vec::new();
    let mut zeros = 0;
    for i in 0..nnodes {
        let mut kind = ALL_KINDS[g.t.weighted(&pf.kinds)];
        if kind == Kind::Zero {
            if zeros >= 2 {
                kind = Kind::Plain;
            } else {
                zeros += 1;
            }
        }
        let nargs = match kind {
            Kind::Zero => 1,
            Kind::Lru => 1 + g.t.pick(pf.lru_nargs),
            _ => 1 + g.t.pick(pf.max_nargs),
        } as u8;
        let nops = 1 + g.t.pick(pf.max_ops);
        let body = g.ops(nops, i, i >= base, false, 0);
        let ret_h = g.t.pick(100) < pf.ret_h_pct;
        nodes.push(Node { kind, nargs, body, ret_h });
    }
    let n1 = 1 + g.t.pick(3);
    let on_ent = g.ops(n1, base, false, true, 0);
    let n2 = 1 + g.t.pick(3);
    let on_ent_spec = g.ops(n2, base, false, true, 0);
    let n3 = 1 + g.t.pick(3);
    let on_sym = g.ops(n3, base, false, true, 0);
    // only `on_ent` may try to specify its argument (a specifiable function specifying its own key
    // from inside its own execution is not a scenario the property talks about)
    fn strip(ops: Vec<Op>) -> Vec<Op> {
        ops.into_iter()
            .map(|o| match o {
                Op::SpecifyAny { .. } | Op::Specify { .. } => Op::Read { slot: 0, field: 0 },
                Op::If { slot, field, thr, then, els } => Op::If { slot, field, thr, then: strip(then), els: strip(els) },
                o => o,
            })
            .collect()
    }
    let on_ent_spec = strip(on_ent_spec);
    let on_sym = strip(on_sym);
    let coarse_hash = pf.coarse_hash_pct > 0 && g.t.pick(100) < pf.coarse_hash_pct;
    let sym_hash = pf.sym_hash_pct > 0 && g.t.pick(100) < pf.sym_hash_pct;
    Program { slots, cells, nodes, base: base as u8, on_ent, on_ent_spec, on_sym, lattice: false, coarse_hash, sym_hash, maxplus: false }
}

pub fn gen_history(t: &mut Tape, prog: &Program, pf: &Profile) -> Vec<Step> {
    let n = pf.min_steps + t.pick(pf.max_steps - pf.min_steps + 1);
    let nslots = prog.slots.len() as u32;
    let ncells = prog.cells.len() as u32;
    let nnodes = prog.nodes.len() as u32;
    let lru_nodes: Vec<u8> =
        prog.nodes.iter().enumerate().filter(|(_, n)| n.kind == Kind::Lru).map(|(i, _)| i as u8).collect();
    let mut v = Vec::new();
    let guards = if pf.episode_pct > 0 { if_guards(prog) } else { vec![] };
    while (v.len() as u32) < n {
        if !guards.is_empty() && t.pick(100) < pf.episode_pct {
            let x = t.pick(nnodes) as u8;
            let xarg = t.pick(prog.nodes[x as usize].nargs as u32) as u8;
            if t.chance(3, 4) {
                v.push(Step::Get { node: x, arg: xarg });
            }
            // one or two writes to fields the program looks at, each followed by a re-entry
            for _ in 0..1 + t.pick(2) {
                let (slot, field, thr) = guards[t.pick(guards.len() as u32) as usize];
                // at, just below, or anywhere around the threshold
                let val = match (thr, t.pick(3)) {
                    (Some(thr), 0) => thr % VMOD,
                    (Some(thr), 1) => thr.saturating_sub(1) % VMOD,
                    _ => t.pick(VMOD),
                };
                v.push(Step::Set { slot, field, val, dur: None });
                match t.pick(8) {
                    0 => {}
                    // every key: members that were computed inside a cycle are recomputed on
                    // their own and lose their participant status
                    1 | 2 => v.push(Step::Fresh),
                    _ => v.push(Step::Get { node: x, arg: xarg }),
                }
            }
            let cs = static_callees(&prog.nodes[x as usize].body);
            if !cs.is_empty() {
                for _ in 0..1 + t.pick(2) {
                    let mut c = cs[t.pick(cs.len() as u32) as usize];
                    // sometimes one level further down
                    if t.chance(1, 3) {
                        let cs2 = static_callees(&prog.nodes[c as usize].body);
                        if !cs2.is_empty() {
                            c = cs2[t.pick(cs2.len() as u32) as usize];
                        }
                    }
                    v.push(Step::Get { node: c, arg: t.pick(prog.nodes[c as usize].nargs as u32) as u8 });
                }
            }
            continue;
        }
        let mut k = t.weighted(&pf.steps);
        if k == 3 && ncells == 0 {
            k = 2;
        }
        if k == 6 && lru_nodes.is_empty() {
            k = 0;
        }
        let s = match k {
            0 | 4 => {
                let node = t.pick(nnodes) as u8;
                let arg = t.pick(prog.nodes[node as usize].nargs as u32) as u8;
                if k == 0 { Step::Get { node, arg } } else { Step::GetAcc { node, arg } }
            }
            1 => {
                let slot = t.pick(nslots) as u8;
                let field = t.pick(2) as u8;
                let val = t.pick(if prog.lattice { VMOD } else { VMOD });
                let dur = if t.pick(100) < pf.set_dur_pct { Some(D::from_idx(t.weighted(&pf.set_durs))) } else { None };
                Step::Set { slot, field, val, dur }
            }
            2 => Step::Synth { dur: D::from_idx(t.weighted(&pf.set_durs)) },
            3 => Step::SetCell { cell: t.pick(ncells) as u8, val: t.pick(VMOD), dur: D::from_idx(t.pick(3) as usize) },
            5 => Step::Evict,
            6 => Step::LruCap { node: lru_nodes[t.pick(lru_nodes.len() as u32) as usize], cap: t.pick(7) as u8 },
            7 => Step::InternTop { ty: t.weighted(&pf.sym_types) as u8, x: t.pick(pf.sym_dom) },
            _ => Step::Fresh,
        };
        v.push(s);
    }
    if pf.snapshot {
        let at = (1 + t.pick(v.len() as u32) as usize).min(v.len());
        v.insert(at, Step::Snapshot);
        // most snapshots are taken in a quiescent state (every key requested since the last
        // write), which keeps the listed read-lock finding out of the way by construction
        if t.chance(7, 10) {
            v.insert(at, Step::Fresh);
        }
    }
    v
}

/// fields the program looks at: (slot, field, threshold) of every `If`, (slot, field, None) of
/// every `Read`, in node bodies and in the bodies of the struct / interned functions
pub fn if_guards(prog: &Program) -> Vec<(u8, u8, Option<u32>)> {
    fn walk(ops: &[Op], out: &mut Vec<(u8, u8, Option<u32>)>) {
        for o in ops {
            match o {
                Op::If { slot, field, thr, then, els } => {
                    out.push((*slot, *field, Some(*thr)));
                    walk(then, out);
                    walk(els, out);
                }
                Op::Read { slot, field } => out.push((*slot, *field, None)),
                _ => {}
            }
        }
    }
    let mut out = vec![];
    for n in &prog.nodes {
        walk(&n.body, &mut out);
    }
    walk(&prog.on_ent, &mut out);
    walk(&prog.on_ent_spec, &mut out);
    walk(&prog.on_sym, &mut out);
    out
}

/// nodes called anywhere in a body (both branches of every `If`)
pub fn static_callees(ops: &[Op]) -> Vec<u8> {
    let mut out = vec![];
    for o in ops {
        match o {
            Op::Call { node, .. } | Op::CallMask { node, .. } | Op::CallShift { node, .. } | Op::CallInc { node, .. } | Op::CallNot { node, .. } | Op::CallSat { node, .. } | Op::CallMax { node, .. } => out.push(*node),
            Op::If { then, els, .. } => {
                out.extend(static_callees(then));
                out.extend(static_callees(els));
            }
            _ => {}
        }
    }
    out
}

pub fn gen_case(tape: &[u32], pf: &Profile) -> Case {
    let mut t = Tape::new(tape);
    let prog = gen_program(&mut t, pf);
    let hist = gen_history(&mut t, &prog, pf);
    Case { prog, hist }
}

// ---------------------------------------------------------------------------------------------
// lattice (cyclic) programs
// ---------------------------------------------------------------------------------------------

/// Three layers: layer 0 = plain leaves (indices < l0), layer 1 = cyclic kinds calling any
/// layer-1 node and layer 0, layer 2 = plain callers of anything below.
pub fn gen_lattice_program(t: &mut Tape, pf: &Profile) -> Program {
    if pf.maxplus_pct > 0 && t.pick(100) < pf.maxplus_pct {
        return gen_maxplus_program(t, pf);
    }
    let nslots = 1 + t.pick(pf.max_slots);
    let mut slots = Vec::new();
    for _ in 0..nslots {
        let mut s = [(0, D::Low); 2];
        for f in &mut s {
            *f = (t.pick(VMOD), D::from_idx(t.weighted(&pf.durs)));
        }
        slots.push(s);
    }
    let l0 = t.pick(3);
    let l1 = 1 + t.pick(pf.max_nodes.saturating_sub(3).max(1));
    let l2 = t.pick(3);
    let mut nodes = Vec::new();
    let sf = |t: &mut Tape| (t.pick(nslots) as u8, t.pick(2) as u8);
    for _ in 0..l0 {
        let n = 1 + t.pick(2);
        let body = (0..n)
            .map(|_| {
                let (slot, field) = sf(t);
                Op::Read { slot, field }
            })
            .collect();
        nodes.push(Node { kind: Kind::Plain, nargs: 1, body, ret_h: false });
    }
    // layer-1 kinds: fix, fix_join, fall, div, and (C14) plain = no cycle recovery
    let cyc_kinds = [Kind::Fix, Kind::FixJoin, Kind::Fall, Kind::Div, Kind::Plain];
    let sat = pf.sat_pct > 0 && t.pick(100) < pf.sat_pct;
    let cyc_w = if sat { [pf.kinds[6].max(1), pf.kinds[7], 0, 0, 0] } else { [pf.kinds[6], pf.kinds[7], pf.kinds[8], pf.kinds[9], pf.kinds[0]] };
    for i in 0..l1 {
        let kind = cyc_kinds[t.weighted(&cyc_w)];
        let nops = 1 + t.pick(pf.max_ops);
        let mut body = lat_ops(t, nops, l0, l0 + l1, l0 + i, kind, nslots, 0, pf, sat);
        if kind == Kind::Div && t.chance(1, 5) {
            // self-loop oscillator, always the last op so the node's value is exactly !self & 1
            body.push(Op::CallNot { node: (l0 + i) as u8, arg: Src::Const(0) });
        }
        nodes.push(Node { kind, nargs: 1, body, ret_h: false });
    }
    for _ in 0..l2 {
        let nops = 1 + t.pick(3);
        let lim = nodes.len() as u32;
        let body = lat_ops(t, nops, lim, lim, u32::MAX, Kind::Plain, nslots, 0, pf, sat);
        nodes.push(Node { kind: Kind::Plain, nargs: 1, body, ret_h: false });
    }
    Program {
        slots,
        cells: vec![],
        nodes,
        base: l0 as u8,
        on_ent: vec![],
        on_ent_spec: vec![],
        on_sym: vec![],
        lattice: true,
        coarse_hash: false,
        sym_hash: false,
        maxplus: false,
    }
}

/// Max-plus programs: 2..=5 fixpoint functions, each `[Read base; CallMax edge; ...]` with edges to
/// any function (itself included), increments 0..=2 and guards 0..=2.
pub fn gen_maxplus_program(t: &mut Tape, pf: &Profile) -> Program {
    let nslots = 1 + t.pick(pf.max_slots);
    let mut slots = Vec::new();
    for _ in 0..nslots {
        let mut s = [(0, D::Low); 2];
        for f in &mut s {
            *f = (t.pick(3), D::from_idx(t.weighted(&pf.durs)));
        }
        slots.push(s);
    }
    let n = 2 + t.pick(4);
    let ncells = if pf.max_cells == 0 { 0 } else { 1 + t.pick(pf.max_cells) };
    let cells: Vec<u32> = (0..ncells).map(|_| t.pick(VMOD)).collect();
    let mut nodes = vec![];
    for _ in 0..n {
        let mut body = vec![];
        if t.chance(3, 4) {
            body.push(Op::Read { slot: t.pick(nslots) as u8, field: t.pick(2) as u8 });
        }
        for _ in 0..1 + t.pick(3) {
            body.push(Op::CallMax { node: t.pick(n) as u8, arg: Src::Const(0), add: t.weighted(&[3, 2, 2]) as u32, guard: t.weighted(&[4, 2, 1]) as u32 });
            if ncells > 0 && t.chance(1, 4) {
                body.push(Op::UntrackedBelow { cell: t.pick(ncells) as u8, below: 1 + t.pick(3) });
            }
        }
        nodes.push(Node { kind: Kind::Fix, nargs: 1, body, ret_h: false });
    }
    Program { slots, cells, nodes, base: 0, on_ent: vec![], on_ent_spec: vec![], on_sym: vec![], lattice: true, coarse_hash: false, sym_hash: false, maxplus: true }
}

#[allow(clippy::too_many_arguments)]
fn lat_ops(t: &mut Tape, n: u32, _l0: u32, callable: u32, me: u32, kind: Kind, nslots: u32, depth: u32, pf: &Profile, sat: bool) -> Vec<Op> {
    let mut v = Vec::new();
    for _ in 0..n {
        // read, call, callmask, callshift, if
        let mut k = t.weighted(&[2, 5, 2, 2, 3]);
        if k == 4 && depth >= 2 {
            k = 1;
        }
        if callable == 0 && k != 4 {
            k = 0;
        }
        let slot = t.pick(nslots) as u8;
        let field = t.pick(2) as u8;
        let node = t.pick(callable.max(1)) as u8;
        let arg = Src::Const(0);
        let op = match k {
            0 => Op::Read { slot, field },
            // Div bodies: only increments of a callee (cap from an input; cap value 3 = none)
            1 | 2 | 3 if kind == Kind::Div => Op::CallInc { node, arg, slot, field },
            1 | 2 if sat && t.chance(1, 2) => Op::CallSat { node, arg, mask: SAT_MASKS[t.pick(SAT_MASKS.len() as u32) as usize] },
            1 => Op::Call { node, arg },
            2 => Op::CallMask { node, arg, slot, field },
            3 => Op::CallShift { node, arg },
            _ => {
                let thr = 1 + t.pick(VMOD - 1);
                let nt = t.pick(3);
                let ne = t.pick(3);
                let then = lat_ops(t, nt, _l0, callable, me, kind, nslots, depth + 1, pf, sat);
                let els = lat_ops(t, ne, _l0, callable, me, kind, nslots, depth + 1, pf, sat);
                Op::If { slot, field, thr, then, els }
            }
        };
        v.push(op);
    }
    v
}

// ---------------------------------------------------------------------------------------------
// C10 shape: creators `[Read?; NewEnt; Specify under an input-dependent condition]`, an
// `on_ent_spec` body that reads inputs (so the computed value has stamps of its own), readers
// `[Call creator; CallOnEntSpec]`. Switching between "specified" and "computed" by writes, with
// writes to the body's inputs in between, is then a matter of a few history steps.
// ---------------------------------------------------------------------------------------------
pub fn gen_spec_program(t: &mut Tape, pf: &Profile) -> Program {
    let nslots = 1 + t.pick(pf.max_slots);
    let mut slots = Vec::new();
    for _ in 0..nslots {
        let mut s = [(0, D::Low); 2];
        for f in &mut s {
            *f = (t.pick(VMOD), D::from_idx(t.weighted(&pf.durs)));
        }
        slots.push(s);
    }
    let sf = |t: &mut Tape| (t.pick(nslots) as u8, t.pick(2) as u8);
    let ncr = 1 + t.pick(2);
    let nrd = 1 + t.pick(3);
    let mut nodes = vec![];
    for _ in 0..ncr {
        let mut body = vec![];
        if t.chance(1, 2) {
            let (slot, field) = sf(t);
            body.push(Op::Read { slot, field });
        }
        let nent = 1 + t.pick(2);
        for h in 0..nent {
            body.push(Op::NewEnt { ident: Src::Const(t.pick(pf.ident_dom.max(1))) });
            let val = if t.chance(1, 2) { Src::Acc } else { Src::Const(t.pick(VMOD)) };
            let spec = Op::Specify { h: h as u8, val };
            let (slot, field) = sf(t);
            let thr = 1 + t.pick(VMOD - 1);
            match t.weighted(&[2, 4, 4, 1]) {
                0 => body.push(spec),
                1 => body.push(Op::If { slot, field, thr, then: vec![spec], els: vec![] }),
                2 => body.push(Op::If { slot, field, thr, then: vec![], els: vec![spec] }),
                _ => {}
            }
        }
        nodes.push(Node { kind: Kind::Plain, nargs: 1, body, ret_h: true });
    }
    for i in 0..nrd {
        let mut body = vec![];
        body.push(Op::Call { node: t.pick(ncr) as u8, arg: Src::Const(0) });
        let n = 1 + t.pick(3);
        for _ in 0..n {
            let (slot, field) = sf(t);
            body.push(match t.weighted(&[1, 5, 2, 1, 1]) {
                0 => Op::Read { slot, field },
                1 => Op::CallOnEntSpec { h: t.pick(2) as u8 },
                2 => Op::EntField { h: t.pick(2) as u8, which: t.pick(3) as u8 },
                3 => Op::CallOnEnt { h: t.pick(2) as u8 },
                _ => Op::Call { node: t.pick(ncr + i) as u8, arg: Src::Const(0) },
            });
        }
        nodes.push(Node { kind: if t.chance(1, 5) { Kind::NoEq } else { Kind::Plain }, nargs: 1, body, ret_h: t.chance(1, 3) });
    }
    let mut special = |t: &mut Tape| -> Vec<Op> {
        let n = 1 + t.pick(3);
        (0..n)
            .map(|_| {
                let (slot, field) = sf(t);
                match t.weighted(&[5, 2, 2]) {
                    0 => Op::Read { slot, field },
                    1 => Op::EntField { h: 0, which: t.pick(3) as u8 },
                    _ => {
                        let (s2, f2) = sf(t);
                        Op::If { slot, field, thr: 1 + t.pick(VMOD - 1), then: vec![Op::Read { slot: s2, field: f2 }], els: vec![] }
                    }
                }
            })
            .collect()
    };
    let on_ent = special(t);
    let on_ent_spec = special(t);
    Program { slots, cells: vec![], nodes, base: ncr as u8, on_ent, on_ent_spec, on_sym: vec![Op::SymField { h: 0 }], lattice: false, coarse_hash: false, sym_hash: false, maxplus: false }
}

// ---------------------------------------------------------------------------------------------
// C09 shape: "mk" nodes read input fields (of some durability) and then intern; reader nodes
// call them and use the handles. The durability stamp of every interning is then exactly the
// minimum durability of the fields read before it in the same body.
// ---------------------------------------------------------------------------------------------

pub fn gen_intern_program(t: &mut Tape, pf: &Profile) -> Program {
    let nslots = 1 + t.pick(pf.max_slots);
    let mut slots = Vec::new();
    for _ in 0..nslots {
        let mut s = [(0, D::Low); 2];
        for f in &mut s {
            *f = (t.pick(VMOD), D::from_idx(t.weighted(&pf.durs)));
        }
        slots.push(s);
    }
    let nmk = 1 + t.pick(4);
    let nrd = t.pick(4);
    let mut nodes = vec![];
    fn mk_ops(t: &mut Tape, pf: &Profile, nslots: u32, n: u32, depth: u32) -> Vec<Op> {
        let mut v = vec![];
        for _ in 0..n {
            let k = t.weighted(&[3, 5, if depth < 2 { 2 } else { 0 }]);
            let slot = t.pick(nslots) as u8;
            let field = t.pick(2) as u8;
            v.push(match k {
                0 => Op::Read { slot, field },
                1 => {
                    let x = if t.chance(1, 2) { Src::Acc } else { Src::Const(t.pick(pf.sym_dom)) };
                    Op::Intern { ty: t.weighted(&pf.sym_types) as u8, x }
                }
                _ => {
                    let thr = 1 + t.pick(VMOD - 1);
                    let nt = t.pick(3);
                    let ne = t.pick(3);
                    let then = mk_ops(t, pf, nslots, nt, depth + 1);
                    let els = mk_ops(t, pf, nslots, ne, depth + 1);
                    Op::If { slot, field, thr, then, els }
                }
            });
        }
        v
    }
    for _ in 0..nmk {
        let nops = 1 + t.pick(pf.max_ops);
        // most mk nodes start with a read so their interned values are LOW..HIGH stamped
        let mut body = vec![];
        if t.chance(4, 5) {
            body.push(Op::Read { slot: t.pick(nslots) as u8, field: t.pick(2) as u8 });
        }
        body.extend(mk_ops(t, pf, nslots, nops, 0));
        nodes.push(Node { kind: Kind::Plain, nargs: 1 + t.pick(2) as u8, body, ret_h: true });
    }
    for i in 0..nrd {
        let nops = 1 + t.pick(pf.max_ops);
        let mut body = vec![];
        for _ in 0..nops {
            let k = t.weighted(&[2, 5, 3, 2]);
            body.push(match k {
                0 => Op::Read { slot: t.pick(nslots) as u8, field: t.pick(2) as u8 },
                1 => Op::Call { node: t.pick(nmk + i) as u8, arg: Src::Const(t.pick(2)) },
                2 => Op::SymField { h: t.pick(4) as u8 },
                _ => Op::CallOnSym { h: t.pick(4) as u8 },
            });
        }
        nodes.push(Node { kind: Kind::Plain, nargs: 1, body, ret_h: t.chance(1, 2) });
    }
    Program {
        slots,
        cells: vec![],
        nodes,
        base: nmk as u8,
        on_ent: vec![],
        on_ent_spec: vec![],
        on_sym: vec![Op::SymField { h: 0 }],
        lattice: false,
        coarse_hash: false,
        sym_hash: pf.sym_hash_pct > 0 && t.pick(100) < pf.sym_hash_pct,
        maxplus: false,
    }
}

//! `seq` engine: one database handle, a history interpreted step by step, oracles after every
//! step. The engine applies each step to the real database *and* to the model; per-property
//! oracles (src/props) look at the step result, the log slice and the indices built here.

use std::collections::{BTreeMap, HashMap};
use std::sync::Arc;

use crate::obs::*;
use crate::prog::*;
use crate::refm::*;
use crate::world::*;

#[derive(Clone, Debug, PartialEq, Eq, serde::Serialize, serde::Deserialize)]
pub struct Violation {
    pub rule: String,
    pub step: usize,
    pub detail: String,
}

#[derive(Clone, Debug)]
pub enum StepRes {
    Got { key: (u8, u8), real: Result<Got, Pan>, want: Result<ROut, RPanic> },
    Acc { key: (u8, u8), real: Result<Vec<u32>, Pan>, want: Result<Vec<u32>, RPanic> },
    Write { real: Result<(), Pan>, expect_panic: bool },
    Interned { real: Result<(u8, u64, u32), Pan>, want: (u8, u32) },
    /// eviction / capacity change (takes `&mut db`, no new revision)
    Maint { real: Result<(), Pan> },
    /// serde round trip into a fresh database (C26)
    Snap { real: Result<(), Pan> },
    Other,
}

/// one completed or aborted execution of a tracked-function body
#[derive(Clone, Debug)]
pub struct Exec {
    pub key: LKey,
    pub rev: u32,
    pub step: usize,
    /// position in the global log of Start
    pub at: usize,
    pub rec: Option<ExecRec>,
    pub dk: Option<DK>,
}

/// Indices over the whole log so far.
#[derive(Default)]
pub struct Index {
    pub dk2l: HashMap<DK, LKey>,
    pub l2dk: HashMap<LKey, DK>,
    pub execs: Vec<Exec>,
    /// last completed execution per key (index into execs)
    pub last_exec: HashMap<LKey, usize>,
    /// (revision, log position) of the last DidValidateMemoizedValue per key
    pub last_validated: HashMap<LKey, (u32, usize)>,
    /// struct Id -> (creator, created record, revision)
    pub ents: HashMap<u64, (LKey, Created, u32)>,
    /// total log length consumed
    pub pos: usize,
    pub pending_exec: HashMap<u32, Vec<DK>>,
    open: HashMap<u32, Vec<usize>>,
}

impl Index {
    /// digest new records; `base` = global log position of recs[0]
    pub fn digest(&mut self, recs: &[Rec], rev: u32, step: usize) {
        for (i, r) in recs.iter().enumerate() {
            let at = self.pos + i;
            match r {
                Rec::Ev(tid, Ev::WillExecute(dk)) => {
                    self.pending_exec.entry(*tid).or_default().push(*dk);
                }
                Rec::Ev(_, Ev::DidValidate(dk)) => {
                    if let Some(l) = self.dk2l.get(dk) {
                        self.last_validated.insert(*l, (rev, at));
                    }
                }
                Rec::Start(key, tid) => {
                    let dk = self.pending_exec.entry(*tid).or_default().pop();
                    if let Some(dk) = dk {
                        self.dk2l.insert(dk, *key);
                        self.l2dk.insert(*key, dk);
                    }
                    self.execs.push(Exec { key: *key, rev, step, at, rec: None, dk });
                    self.open.entry(*tid).or_default().push(self.execs.len() - 1);
                }
                Rec::End(rec) => {
                    // match the innermost open execution of this thread with the same key
                    let open = self.open.entry(rec.tid).or_default();
                    while let Some(ix) = open.pop() {
                        if self.execs[ix].key == rec.key {
                            self.execs[ix].rec = Some((**rec).clone());
                            self.last_exec.insert(rec.key, ix);
                            for c in &rec.created {
                                self.ents.insert(c.id, (rec.key, c.clone(), rev));
                            }
                            break;
                        }
                        // aborted inner executions (unwound) are dropped
                    }
                }
                _ => {}
            }
        }
        self.pos += recs.len();
    }

    /// after a panic unwound through bodies: forget open frames
    pub fn clear_open(&mut self) {
        self.open.clear();
        self.pending_exec.clear();
    }
}

pub struct StepCtx<'a> {
    pub case: &'a Case,
    pub idx: usize,
    pub step: &'a Step,
    pub model_before: &'a Model,
    pub model: &'a Model,
    pub rev_before: u32,
    pub rev: u32,
    pub res: &'a StepRes,
    /// log records produced by this step
    pub recs: &'a [Rec],
    /// global log position of recs[0]
    pub base: usize,
    pub world: &'a World,
    pub ix: &'a Index,
    /// the reference evaluation used for this step's expectation (Get/GetAcc)
    pub eval: Option<&'a Eval<'a>>,
    /// records of salsa's guarded trace hook produced by this step (main database only)
    pub hooks: &'a [salsa::verif_hooks::TraceEvent],
}

pub trait Oracle {
    /// called before a history step is executed (the database has not been touched yet)
    fn before(&mut self, _world: &World, _step: &Step, _idx: usize) -> Vec<Violation> {
        vec![]
    }
    fn step(&mut self, cx: &StepCtx) -> Vec<Violation>;
    /// called once after the last step
    fn finish(&mut self, _case: &Case, _ix: &Index) -> Vec<Violation> {
        vec![]
    }
    /// classification labels of this case (for the distribution report); "nontrivial" marks
    /// the case as non-trivial by the property's rule
    fn labels(&self) -> Vec<&'static str>;
}

pub fn rev_num(db: &VDb) -> u32 {
    let r = salsa::plumbing::current_revision(db);
    let s = format!("{r:?}");
    s.trim_start_matches('R').parse().unwrap_or(0)
}

pub const KF_PANIC_LEFTOVER: &str = "kf:c22-provisional-memo-left-by-a-panicked-fixpoint-iteration-reused";

pub struct SeqOutcome {
    pub violations: Vec<Violation>,
    pub labels: Vec<&'static str>,
    pub steps_run: usize,
    /// sub-runs performed for this case beyond the first (fault points, schedules, ...)
    pub extra_evals: u64,
    /// additional counters for the evidence file
    pub counters: Vec<(&'static str, u64)>,
    /// fault engine: total user-code sites ticked, and whether the armed fault fired
    pub ticks: u64,
    pub fault_fired: bool,
}

#[derive(Clone, Debug, Default)]
pub struct SeqOpts {
    /// stop at the first violation
    pub stop_early: bool,
    /// fault engine (C22): `Some(None)` = count user-code sites, `Some(Some(k))` = panic at site k
    pub fault: Option<Option<u64>>,
}

pub fn ref_eval_get<'a>(ev: &mut Eval<'a>, node: u8, arg: u8) -> Result<ROut, RPanic> {
    ev.node(node, arg).map(|r| r.out.clone())
}

fn expand(case: &Case) -> Vec<(usize, Step, bool)> {
    // (original index, step, is_fresh_probe)
    let mut v = vec![];
    for (i, s) in case.hist.iter().enumerate() {
        match s {
            Step::Fresh => {
                for (n, nd) in case.prog.nodes.iter().enumerate() {
                    for a in 0..nd.nargs {
                        v.push((i, Step::Get { node: n as u8, arg: a }, true));
                    }
                }
            }
            s => v.push((i, s.clone(), false)),
        }
    }
    v
}

pub fn run_seq(case: &Case, oracles: &mut [Box<dyn Oracle>], opts: &SeqOpts) -> SeqOutcome {
    let prog = Arc::new(case.prog.clone());
    let mut model = Model::new(&case.prog);
    let mut world = World::new(prog.clone(), &model.vals, model.cells.clone());
    let mut ix = Index::default();
    let mut violations = vec![];
    let mut steps_run = 0;
    // creation of inputs does not log anything interesting, but keep positions consistent
    let pre = world.take_log();
    ix.digest(&pre, rev_num(&world.db), 0);

    let steps = expand(case);
    salsa::verif_hooks::start();
    if let Some(f) = opts.fault {
        crate::fault::reset(f);
    }
    // revision in which the injected fault fired (fault engine)
    let mut fault_rev: Option<u32> = None;
    let mut fault_in_cycle_rev: Option<u32> = None;
    let mut step_rev: std::collections::HashMap<usize, u32> = Default::default();
    let mut fresh_world: Option<(usize, World)> = None;
    for (idx, step, probe) in steps.iter() {
        let idx = *idx;
        steps_run += 1;
        world.reset_budget();
        let model_before = model.clone();
        let rev_before = rev_num(&world.db);
        let mut eval_holder: Option<Eval> = None;
        for o in oracles.iter_mut() {
            violations.extend(o.before(&world, step, idx));
        }
        let fired_before = crate::fault::fired();
        let res = match step {
            Step::Set { slot, field, val, dur } => {
                let frozen = model.frozen[*slot as usize][*field as usize];
                let real = world.set(*slot, *field, *val, *dur);
                if !frozen {
                    let f = &mut model.vals[*slot as usize][*field as usize];
                    f.0 = *val;
                    if let Some(d) = dur {
                        f.1 = *d;
                        if *d == D::Never {
                            model.frozen[*slot as usize][*field as usize] = true;
                        }
                    }
                }
                StepRes::Write { real, expect_panic: frozen }
            }
            Step::Synth { dur } => {
                let real = world.synth(*dur);
                StepRes::Write { real, expect_panic: *dur == D::Never }
            }
            Step::SetCell { cell, val, dur } => {
                world.set_cell(*cell, *val);
                model.cells[*cell as usize] = *val;
                let real = world.synth(*dur);
                StepRes::Write { real, expect_panic: *dur == D::Never }
            }
            Step::Get { node, arg } => {
                let arg = *arg % case.prog.nodes[*node as usize].nargs;
                let real = world.get(*node, arg);
                StepRes::Got { key: (*node, arg), real, want: Err(RPanic::Depth) }
            }
            Step::GetAcc { node, arg } => {
                let arg = *arg % case.prog.nodes[*node as usize].nargs;
                let real = world.get_acc(*node, arg);
                StepRes::Acc { key: (*node, arg), real, want: Err(RPanic::Depth) }
            }
            Step::Evict => StepRes::Maint { real: world.evict() },
            Step::LruCap { cap, .. } => StepRes::Maint { real: world.lru_cap(*cap as usize) },
            Step::InternTop { ty, x } => {
                let real = world.intern_top(*ty, *x);
                StepRes::Interned { real, want: ((*ty).min(3), *x) }
            }
            Step::Snapshot => match world.snapshot_roundtrip() {
                Ok(w2) => {
                    // records of the old database first (none expected), then switch
                    world = w2;
                    StepRes::Snap { real: Ok(()) }
                }
                Err(p) => StepRes::Snap { real: Err(p) },
            },
            Step::Fresh => unreachable!(),
        };
        // fault engine: the armed panic fired inside this step
        let fired_now = opts.fault.is_some() && !fired_before && crate::fault::fired();
        if fired_now {
            let real_err: Option<Option<&Pan>> = match &res {
                StepRes::Got { real, .. } => Some(real.as_ref().err()),
                StepRes::Acc { real, .. } => Some(real.as_ref().err()),
                StepRes::Write { real, .. } => Some(real.as_ref().err()),
                StepRes::Interned { real, .. } => Some(real.as_ref().err()),
                StepRes::Maint { real } => Some(real.as_ref().err()),
                StepRes::Snap { real } => Some(real.as_ref().err()),
                StepRes::Other => None,
            };
            match real_err {
                Some(Some(Pan::Injected(..))) => {}
                Some(Some(other)) => violations.push(Violation {
                    rule: "fault-payload-replaced".into(),
                    step: idx,
                    detail: format!("{step:?}: injected panic at site {:?} reached the caller as `{}`", crate::fault::last_site(), other.text()),
                }),
                Some(None) | None => violations.push(Violation {
                    rule: "fault-swallowed".into(),
                    step: idx,
                    detail: format!("{step:?}: injected panic at site {:?} did not reach the caller; the step returned normally", crate::fault::last_site()),
                }),
            }
            // the interrupted write may or may not have taken effect: resynchronise the model
            model = model_before.clone();
            for (si, sl) in model.vals.iter_mut().enumerate() {
                for (fi, f) in sl.iter_mut().enumerate() {
                    f.0 = world.peek(si as u8, fi as u8);
                }
            }
            if let Step::SetCell { cell, .. } = step {
                // the synthetic write that publishes the cell did not (certainly) happen: undo the cell change
                world.set_cell(*cell, model_before.cells[*cell as usize]);
            }
            fault_rev = Some(rev_num(&world.db));
            let recs = world.take_log();
            let rev = rev_num(&world.db);
            step_rev.insert(idx, rev);
            if case.prog.lattice {
                // listed finding c22-kf3: the injected panic unwound through a fixpoint iteration
                let mut open: Vec<u8> = vec![];
                for r in &recs {
                    match r {
                        Rec::Start(LKey::Node(n, _), _) => open.push(*n),
                        Rec::End(rec) => {
                            if let LKey::Node(p, _) = rec.key {
                                if let Some(pos) = open.iter().rposition(|x| *x == p) {
                                    open.truncate(pos);
                                }
                            }
                        }
                        _ => {}
                    }
                }
                if std::env::var_os("VH_TRACE").is_some() {
                    eprintln!("--- step {idx} {step:?}: injected panic; still open: {open:?}; log: {recs:?}");
                }
                // the panic may also fire between two iterations (event callback), when no body
                // is open: any function with cycle recovery that started in this step counts
                let started_cyclic = recs.iter().any(|r| matches!(r, Rec::Start(LKey::Node(n, _), _) if matches!(case.prog.nodes[*n as usize].kind, Kind::Fix | Kind::FixJoin | Kind::Fall | Kind::Div)));
                if started_cyclic || open.iter().any(|n| matches!(case.prog.nodes[*n as usize].kind, Kind::Fix | Kind::FixJoin | Kind::Fall | Kind::Div)) {
                    fault_in_cycle_rev = Some(rev);
                }
            }
            let _ = salsa::verif_hooks::drain();
            salsa::verif_hooks::start();
            ix.digest(&recs, rev_num(&world.db), idx);
            ix.clear_open();
            if opts.stop_early && !violations.is_empty() {
                break;
            }
            continue;
        }
        // expectations from the reference (after the model update)
        let res = match res {
            StepRes::Got { key, real, .. } if case.prog.lattice => {
                let lat = crate::lat::Lat::new(&case.prog, &model);
                let want = match lat.solve(key.0).0 {
                    crate::lat::LatWant::Value(v) => Ok(ROut { v, ents: vec![], syms: vec![] }),
                    crate::lat::LatWant::CyclePanic => Err(RPanic::Cycle),
                    crate::lat::LatWant::Either => Err(RPanic::Either),
                    crate::lat::LatWant::EitherValue(v) => Err(RPanic::EitherValue(v)),
                    crate::lat::LatWant::Diverge => Err(RPanic::Diverge),
                };
                // after an injected panic, functions that can take part in a cycle may keep
                // unwinding with PropagatedPanic for the rest of that revision (C22 allows it)
                let want = match (&real, fault_rev) {
                    (Err(Pan::Cancelled(c)), Some(fr)) if c.contains("PropagatedPanic") && fr == rev_num(&world.db) => Err(RPanic::Either),
                    _ => want,
                };
                StepRes::Got { key, real, want }
            }
            StepRes::Got { key, real, .. } => {
                let mut ev = Eval::new(&case.prog, &model);
                let want = ref_eval_get(&mut ev, key.0, key.1);
                eval_holder = Some(ev);
                StepRes::Got { key, real, want }
            }
            StepRes::Acc { key, real, .. } => {
                let mut ev = Eval::new(&case.prog, &model);
                let want = ev.node(key.0, key.1).map(|_| ev.accumulated(RKey::Node(key.0, key.1)));
                eval_holder = Some(ev);
                StepRes::Acc { key, real, want }
            }
            r => r,
        };
        let rev = rev_num(&world.db);
        let recs = world.take_log();
        step_rev.insert(idx, rev);
        let hooks = salsa::verif_hooks::drain();
        salsa::verif_hooks::start();
        let base = ix.pos;
        if std::env::var_os("VH_TRACE").is_some() {
            eprintln!("--- step {idx} {step:?} rev R{rev} -> {res:?}");
            for r in &recs {
                match r {
                    Rec::End(e) => eprintln!("    End {:?} out={:?} reads={:?} calls={:?}", e.key, e.out.v, e.reads, e.calls),
                    r => eprintln!("    {r:?}"),
                }
            }
        }
        ix.digest(&recs, rev, idx);
        let panicked = matches!(&res, StepRes::Got { real: Err(_), .. } | StepRes::Acc { real: Err(_), .. });
        if panicked {
            ix.clear_open();
        }
        {
            let cx = StepCtx {
                case,
                idx,
                step,
                model_before: &model_before,
                model: &model,
                rev_before,
                rev,
                res: &res,
                recs: &recs,
                base,
                world: &world,
                ix: &ix,
                eval: eval_holder.as_ref(),
                hooks: &hooks,
            };
            for o in oracles.iter_mut() {
                violations.extend(o.step(&cx));
            }
        }
        // fresh-database differential (literal reading of "a freshly created database holding
        // the same current input values")
        if *probe {
            if let StepRes::Got { key, real, want } = &res {
                if fresh_world.as_ref().map(|(i, _)| *i) != Some(idx) {
                    fresh_world = Some((idx, World::new(prog.clone(), &model.vals, model.cells.clone())));
                }
                let fw = &fresh_world.as_ref().unwrap().1;
                fw.reset_budget();
                let paused = crate::fault::pause();
                let fres = fw.get(key.0, key.1);
                crate::fault::resume(paused);
                fw.take_log();
                salsa::verif_hooks::start();
                if let Some(v) = compare_fresh(idx, *key, real, &fres, want) {
                    violations.push(v);
                }
            }
        } else {
            fresh_world = None;
        }
        if opts.stop_early && !violations.is_empty() {
            break;
        }
        if matches!(res, StepRes::Snap { real: Err(_) }) {
            break; // no restored database to continue with
        }
    }
    drop(fresh_world);
    salsa::verif_hooks::drain();
    for o in oracles.iter_mut() {
        violations.extend(o.finish(case, &ix));
    }
    // listed finding c22-kf3: provisional memos of members that completed before the panic stay in
    // the table; a retry in the same revision takes them for memos of its own first iteration
    if let Some(fr) = fault_in_cycle_rev {
        for v in violations.iter_mut() {
            if v.rule == "value-mismatch" && step_rev.get(&v.step) == Some(&fr) {
                v.rule = KF_PANIC_LEFTOVER.to_string();
            }
        }
    }
    // listed finding cyc-kf6 in the FRESH database of the differential: it does not converge on a
    // program with value-dependent call order while the incremental database returned a value
    if case.prog.lattice && crate::props::cyc::value_dependent(&case.prog) {
        let differential = |v: &Violation| v.rule == "ORACLE-DISAGREE/fresh-vs-reference" || v.rule == "incremental-differs-from-fresh-db";
        let osc_steps: Vec<usize> = violations.iter().filter(|v| differential(v) && v.detail.contains("fresh Err") && v.detail.contains("too many cycle iterations")).map(|v| v.step).collect();
        for v in violations.iter_mut() {
            // the heads that were on the stack stay poisoned in the fresh database for that revision
            let consequence = v.detail.contains("fresh Err") && (v.detail.contains("too many cycle iterations") || v.detail.contains("PropagatedPanic"));
            if differential(v) && consequence && osc_steps.contains(&v.step) {
                v.rule = crate::props::cyc::KF_OSCILLATION.to_string();
            }
        }
    }
    // a mismatch that an oracle classified as a listed-finding pattern ("kf:" rules) also shows
    // up in the fresh-database differential of the same step: keep only the classified one
    let kf_steps: Vec<usize> = violations.iter().filter(|v| v.rule.starts_with("kf:")).map(|v| v.step).collect();
    violations.retain(|v| !((v.rule == "incremental-differs-from-fresh-db" || v.rule == "snapshot-roundtrip-failed") && kf_steps.contains(&v.step)));
    let mut labels = vec![];
    for o in oracles.iter() {
        labels.extend(o.labels());
    }
    labels.sort();
    labels.dedup();
    let ticks = crate::fault::count();
    let fault_fired = crate::fault::fired();
    if opts.fault.is_some() {
        crate::fault::disarm();
    }
    SeqOutcome { violations, labels, steps_run, extra_evals: 0, counters: vec![], ticks, fault_fired }
}

/// Compare an observed value with the reference value (structure, not ids).
pub fn got_matches(g: &Got, r: &ROut) -> Result<(), String> {
    got_matches_opts(g, r, true)
}

/// `identity = false` skips the "equal logical structs <=> equal ids inside one result" part
/// (C26: a struct whose creator is not persisted is legitimately re-created under a new id in
/// the restored database while a persisted memo still carries the old handle).
pub fn got_matches_opts(g: &Got, r: &ROut, identity: bool) -> Result<(), String> {
    if g.v != r.v {
        return Err(format!("value {} != reference {}", g.v, r.v));
    }
    if g.ents.len() != r.ents.len() {
        return Err(format!("returned {} structs, reference {}", g.ents.len(), r.ents.len()));
    }
    for (i, (ge, re)) in g.ents.iter().zip(&r.ents).enumerate() {
        if (ge.1, ge.2, ge.3) != (re.id.ident, re.tv, re.tn) {
            return Err(format!(
                "struct #{i} fields (ident,tv,tn)=({},{},{}) != reference ({},{},{})",
                ge.1, ge.2, ge.3, re.id.ident, re.tv, re.tn
            ));
        }
    }
    if g.syms.len() != r.syms.len() {
        return Err(format!("returned {} interned, reference {}", g.syms.len(), r.syms.len()));
    }
    for (i, (gs, rs)) in g.syms.iter().zip(&r.syms).enumerate() {
        if (gs.0, gs.2) != (rs.0, rs.1) {
            return Err(format!("interned #{i} (ty,x)=({},{}) != reference ({},{})", gs.0, gs.2, rs.0, rs.1));
        }
    }
    if !identity {
        return Ok(());
    }
    // identity consistency inside one result: equal logical structs <=> equal ids
    let mut seen: BTreeMap<u64, RLEnt> = BTreeMap::new();
    let mut seen_rev: BTreeMap<RLEnt, u64> = BTreeMap::new();
    for (ge, re) in g.ents.iter().zip(&r.ents) {
        if let Some(prev) = seen.insert(ge.0, re.id) {
            if prev != re.id {
                return Err(format!("two different structs share id {:#x}", ge.0));
            }
        }
        if let Some(prev) = seen_rev.insert(re.id, ge.0) {
            if prev != ge.0 {
                return Err(format!("one struct {:?} has two ids", re.id));
            }
        }
    }
    let mut sseen: BTreeMap<(u8, u64), u32> = BTreeMap::new();
    let mut sseen_rev: BTreeMap<(u8, u32), u64> = BTreeMap::new();
    for gs in &g.syms {
        if let Some(prev) = sseen.insert((gs.0, gs.1), gs.2) {
            if prev != gs.2 {
                return Err(format!("interned id {:#x} has two data values", gs.1));
            }
        }
        if let Some(prev) = sseen_rev.insert((gs.0, gs.2), gs.1) {
            if prev != gs.1 {
                return Err(format!("interned data {} has two ids in one result", gs.2));
            }
        }
    }
    Ok(())
}

fn strip_ids(g: &Got) -> (u32, Vec<(u32, u32, u32)>, Vec<(u8, u32)>) {
    (g.v, g.ents.iter().map(|e| (e.1, e.2, e.3)).collect(), g.syms.iter().map(|s| (s.0, s.2)).collect())
}

fn compare_fresh(idx: usize, key: (u8, u8), real: &Result<Got, Pan>, fresh: &Result<Got, Pan>, want: &Result<ROut, RPanic>) -> Option<Violation> {
    if matches!(want, Err(RPanic::Either) | Err(RPanic::EitherValue(_))) {
        return None;
    }
    match (real, fresh) {
        (Ok(a), Ok(b)) => {
            if strip_ids(a) != strip_ids(b) {
                // which side is wrong? the reference arbitrates; if the *fresh* db disagrees with
                // the reference it is the harness model that is suspect.
                let rule = match want {
                    Ok(w) if got_matches(b, w).is_err() => "ORACLE-DISAGREE/fresh-vs-reference",
                    _ => "incremental-differs-from-fresh-db",
                };
                Some(Violation { rule: rule.into(), step: idx, detail: format!("key {key:?}: incremental {:?} fresh {:?}", strip_ids(a), strip_ids(b)) })
            } else {
                None
            }
        }
        (Err(_), Err(_)) => None,
        (a, b) => Some(Violation {
            rule: if want.is_ok() == b.is_ok() { "incremental-differs-from-fresh-db".into() } else { "ORACLE-DISAGREE/fresh-vs-reference".into() },
            step: idx,
            detail: format!("key {key:?}: incremental {:?} fresh {:?}", a.as_ref().map(strip_ids), b.as_ref().map(strip_ids)),
        }),
    }
}

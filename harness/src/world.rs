//! The salsa items and the body interpreter — the only code that touches salsa APIs.

use std::collections::HashMap;
use std::panic::{AssertUnwindSafe, catch_unwind};
use std::sync::atomic::{AtomicUsize, Ordering};
use std::sync::{Arc, Mutex};

use salsa::plumbing::AsId;
use salsa::{Accumulator, Database, Durability, Setter};

use crate::fault::{self, Site};
use crate::obs::*;
use crate::prog::*;

// ---------------------------------------------------------------------------------------------
// value newtypes (PartialEq/Hash are fault-injection sites)
// ---------------------------------------------------------------------------------------------

/// field value with ordinary hashing
#[derive(Clone, Copy, Debug, serde::Serialize, serde::Deserialize)]
pub struct FV(pub u32);
impl PartialEq for FV {
    fn eq(&self, o: &FV) -> bool {
        fault::tick(Site::FieldEq);
        self.0 == o.0
    }
}
impl Eq for FV {}
impl std::hash::Hash for FV {
    fn hash<H: std::hash::Hasher>(&self, s: &mut H) {
        fault::tick(Site::FieldHash);
        s.write_u32(self.0)
    }
}

/// identity field of tracked structs: hashes only its low bit while `COARSE_IDENT_HASH` is set, so
/// that different identity values collide on (hash, disambiguator) and salsa has to distinguish
/// them by equality (generation bump in place) — same idea as upstream's `BadHash` tests.
pub static COARSE_IDENT_HASH: std::sync::atomic::AtomicBool = std::sync::atomic::AtomicBool::new(false);
#[derive(Clone, Copy, Debug, serde::Serialize, serde::Deserialize)]
pub struct IV(pub u32);
impl PartialEq for IV {
    fn eq(&self, o: &IV) -> bool {
        fault::tick(Site::FieldEq);
        self.0 == o.0
    }
}
impl Eq for IV {}
impl std::hash::Hash for IV {
    fn hash<H: std::hash::Hasher>(&self, s: &mut H) {
        fault::tick(Site::FieldHash);
        if COARSE_IDENT_HASH.load(Ordering::Relaxed) { s.write_u32(self.0 & 1) } else { s.write_u32(self.0) }
    }
}

/// interned field value with a constant hash, so every value of a type lands in the same shard
/// (slot reuse is only possible within a shard) — same trick as upstream's `BadHash`.
#[derive(Clone, Copy, Debug, serde::Serialize, serde::Deserialize)]
pub struct SV(pub u32);
impl PartialEq for SV {
    fn eq(&self, o: &SV) -> bool {
        fault::tick(Site::FieldEq);
        self.0 == o.0
    }
}
impl Eq for SV {}
/// per case (`Program::sym_hash`): reclaimable interned values hash by value. Workers pinned to
/// one core still have a single shard, so slots are reclaimed across different hashes (the key
/// map entry of a reused slot moves from the old value's hash to the new one's).
pub static SYM_VALUE_HASH: std::sync::atomic::AtomicBool = std::sync::atomic::AtomicBool::new(false);
impl std::hash::Hash for SV {
    fn hash<H: std::hash::Hasher>(&self, s: &mut H) {
        fault::tick(Site::FieldHash);
        if SYM_VALUE_HASH.load(Ordering::Relaxed) { s.write_u32(self.0) } else { s.write_i16(0) }
    }
}

/// live token: lets the harness observe whether a memoized value is still cached
#[derive(Clone, Debug, Default)]
pub struct Tok(Option<Arc<TokInner>>);
impl serde::Serialize for Tok {
    fn serialize<S: serde::Serializer>(&self, s: S) -> Result<S::Ok, S::Error> {
        s.serialize_unit()
    }
}
impl<'de> serde::Deserialize<'de> for Tok {
    fn deserialize<D: serde::Deserializer<'de>>(d: D) -> Result<Self, D::Error> {
        <()>::deserialize(d).map(|_| Tok::default())
    }
}
#[derive(Debug)]
pub struct TokInner(Arc<AtomicUsize>);
impl Drop for TokInner {
    fn drop(&mut self) {
        self.0.fetch_sub(1, Ordering::SeqCst);
    }
}
impl Tok {
    pub fn new(ctr: &Arc<AtomicUsize>) -> Tok {
        ctr.fetch_add(1, Ordering::SeqCst);
        Tok(Some(Arc::new(TokInner(ctr.clone()))))
    }
}

// ---------------------------------------------------------------------------------------------
// salsa items
// ---------------------------------------------------------------------------------------------

#[cfg_attr(feature = "persist", salsa::input(persist))]
#[cfg_attr(not(feature = "persist"), salsa::input)]
pub struct Slot {
    #[returns(copy)]
    pub f0: u32,
    #[returns(copy)]
    pub f1: u32,
}

#[cfg_attr(feature = "persist", salsa::input(persist))]
#[cfg_attr(not(feature = "persist"), salsa::input)]
pub struct NodeKey {
    #[returns(copy)]
    pub tag: u32,
}

#[cfg_attr(feature = "persist", salsa::tracked(debug, persist))]
#[cfg_attr(not(feature = "persist"), salsa::tracked(debug))]
pub struct Ent<'db> {
    #[returns(copy)]
    pub ident: IV,
    #[tracked]
    #[returns(copy)]
    pub tv: FV,
    #[tracked]
    #[no_eq]
    #[returns(copy)]
    pub tn: FV,
}

#[cfg_attr(feature = "persist", salsa::interned(revisions = 1, debug, persist))]
#[cfg_attr(not(feature = "persist"), salsa::interned(revisions = 1, debug))]
pub struct Sym1<'db> {
    #[returns(copy)]
    pub x: SV,
}
#[cfg_attr(feature = "persist", salsa::interned(revisions = 2, debug, persist))]
#[cfg_attr(not(feature = "persist"), salsa::interned(revisions = 2, debug))]
pub struct Sym2<'db> {
    #[returns(copy)]
    pub x: SV,
}
#[cfg_attr(feature = "persist", salsa::interned(debug, persist))]
#[cfg_attr(not(feature = "persist"), salsa::interned(debug))]
pub struct Sym3<'db> {
    #[returns(copy)]
    pub x: SV,
}
#[cfg_attr(feature = "persist", salsa::interned(revisions = usize::MAX, debug, persist))]
#[cfg_attr(not(feature = "persist"), salsa::interned(revisions = usize::MAX, debug))]
pub struct SymImm<'db> {
    #[returns(copy)]
    pub x: FV,
}

#[derive(Clone, Copy, Debug, PartialEq, Eq, Hash, salsa::SalsaValue)]
#[cfg_attr(feature = "persist", derive(serde::Serialize, serde::Deserialize))]
pub enum SymAny<'db> {
    S1(Sym1<'db>),
    S2(Sym2<'db>),
    S3(Sym3<'db>),
    SI(SymImm<'db>),
}

impl<'db> SymAny<'db> {
    pub fn ty(&self) -> u8 {
        match self {
            SymAny::S1(_) => 0,
            SymAny::S2(_) => 1,
            SymAny::S3(_) => 2,
            SymAny::SI(_) => 3,
        }
    }
    pub fn id(&self) -> u64 {
        match self {
            SymAny::S1(s) => s.as_id().as_bits(),
            SymAny::S2(s) => s.as_id().as_bits(),
            SymAny::S3(s) => s.as_id().as_bits(),
            SymAny::SI(s) => s.as_id().as_bits(),
        }
    }
    pub fn x(&self, db: &'db dyn Vd) -> u32 {
        match self {
            SymAny::S1(s) => s.x(db).0,
            SymAny::S2(s) => s.x(db).0,
            SymAny::S3(s) => s.x(db).0,
            SymAny::SI(s) => s.x(db).0,
        }
    }
}

#[salsa::accumulator]
#[derive(Debug, Clone, Copy, PartialEq, Eq)]
pub struct Diag(pub u32);

#[derive(Clone, Debug, salsa::SalsaValue)]
#[cfg_attr(feature = "persist", derive(serde::Serialize, serde::Deserialize))]
pub struct Out<'db> {
    pub v: u32,
    /// durability the producing execution accumulated (harness bookkeeping, not part of equality)
    pub dur: u8,
    pub ents: Vec<Ent<'db>>,
    pub syms: Vec<SymAny<'db>>,
    pub tok: Tok,
}

impl<'db> PartialEq for Out<'db> {
    fn eq(&self, o: &Self) -> bool {
        fault::tick(Site::OutEq);
        self.v == o.v && self.ents == o.ents && self.syms == o.syms
    }
}
impl<'db> Eq for Out<'db> {}

impl<'db> Out<'db> {
    pub fn repr(&self) -> OutRepr {
        OutRepr {
            v: self.v,
            ents: self.ents.iter().map(|e| e.as_id().as_bits()).collect(),
            syms: self.syms.iter().map(|s| (s.ty(), s.id())).collect(),
        }
    }
    fn bare(v: u32) -> Out<'db> {
        Out { v, dur: 3, ents: vec![], syms: vec![], tok: Tok::default() }
    }
}

// ---------------------------------------------------------------------------------------------
// database
// ---------------------------------------------------------------------------------------------

pub struct Ctx {
    pub prog: Arc<Program>,
    pub cells: Mutex<Vec<u32>>,
    pub log: Mutex<Vec<Rec>>,
    /// NodeKey id bits -> (node, arg)
    pub keymap: Mutex<HashMap<u64, (u8, u8)>>,
    pub nodekeys: Mutex<Vec<Vec<NodeKey>>>,
    pub slots: Mutex<Vec<Slot>>,
    pub zero_nodes: [Option<u8>; 2],
    /// live-value counters per (node, arg)
    pub live: Vec<Vec<Arc<AtomicUsize>>>,
    /// optional hook called at every body op / selected events (cooperative scheduler)
    pub yield_hook: Mutex<Option<Arc<dyn Fn(YieldAt) + Send + Sync>>>,
    /// bound on executions per case (guards against runaway loops without a wall clock)
    pub exec_budget: AtomicUsize,
    /// also log `WillCheckCancellation` events (coop engine, C21)
    pub log_check_cancel: std::sync::atomic::AtomicBool,
    /// current durability of every input field (0 LOW .. 3 NEVER_CHANGE), kept by `World`
    pub field_durs: Mutex<Vec<[u8; 2]>>,
    /// durability each tracked struct was (re-)created with, by struct id
    pub ent_durs: Mutex<HashMap<u64, u8>>,
}

#[derive(Clone, Copy, Debug, PartialEq, Eq)]
pub enum YieldAt {
    Op,
    CheckCancel,
    WillExecute,
    WillBlock,
    DidSetCancel,
}

#[derive(Debug)]
pub struct BudgetExceeded;

impl Ctx {
    pub fn push(&self, r: Rec) {
        self.log.lock().unwrap().push(r);
    }
    pub fn nodekey(&self, node: u8, arg: u8) -> NodeKey {
        self.nodekeys.lock().unwrap()[node as usize][arg as usize]
    }
    pub fn slot(&self, i: u8) -> Slot {
        self.slots.lock().unwrap()[i as usize]
    }
    fn hook(&self, at: YieldAt) {
        let h = self.yield_hook.lock().unwrap().clone();
        if let Some(h) = h {
            h(at);
        }
    }
    fn on_event(&self, ev: salsa::Event) {
        use salsa::EventKind as K;
        let tid = fault::tid();
        let (e, at) = match ev.kind {
            K::WillExecute { database_key } => {
                if self.exec_budget.fetch_sub(1, Ordering::SeqCst) == 0 {
                    self.exec_budget.store(0, Ordering::SeqCst);
                    std::panic::panic_any(BudgetExceeded);
                }
                (Ev::WillExecute(database_key.into()), Some(YieldAt::WillExecute))
            }
            K::DidValidateMemoizedValue { database_key } => (Ev::DidValidate(database_key.into()), None),
            K::WillBlockOn { database_key, .. } => (Ev::WillBlockOn { key: database_key.into() }, Some(YieldAt::WillBlock)),
            K::WillIterateCycle { database_key, iteration } => (Ev::WillIterate(database_key.into(), iteration), None),
            K::DidFinalizeCycle { database_key, iteration } => (Ev::DidFinalize(database_key.into(), iteration), None),
            K::WillCheckCancellation => (Ev::WillCheckCancel, Some(YieldAt::CheckCancel)),
            K::DidSetCancellationFlag => (Ev::DidSetCancel, Some(YieldAt::DidSetCancel)),
            K::WillDiscardStaleOutput { execute_key, output_key } => {
                (Ev::WillDiscardStale { exec: execute_key.into(), out: output_key.into() }, None)
            }
            K::DidDiscard { key } => (Ev::DidDiscard(key.into()), None),
            K::DidDiscardAccumulated { executor_key, .. } => (Ev::DidDiscardAcc { exec: executor_key.into() }, None),
            K::DidInternValue { key, .. } => (Ev::DidIntern(key.into()), None),
            K::DidReuseInternedValue { key, .. } => (Ev::DidReuseInterned(key.into()), None),
            K::DidValidateInternedValue { key, .. } => (Ev::DidValidateInterned(key.into()), None),
        };
        fault::note_event(match &e {
            Ev::WillDiscardStale { .. } => 1,
            Ev::DidDiscard(_) => 2,
            Ev::DidDiscardAcc { .. } => 3,
            _ => 0,
        });
        if e != Ev::WillCheckCancel {
            self.push(Rec::Ev(tid, e));
        } else if self.log_check_cancel.load(Ordering::Relaxed) {
            self.push(Rec::CheckCancel(tid));
        }
        fault::tick(Site::Callback);
        if let Some(at) = at {
            self.hook(at);
        }
    }
}

#[salsa::db]
pub trait Vd: salsa::Database {
    fn ctx(&self) -> &Ctx;
}

#[salsa::db]
#[derive(Clone)]
pub struct VDb {
    storage: salsa::Storage<Self>,
    ctx: Arc<Ctx>,
}

#[salsa::db]
impl salsa::Database for VDb {}

impl VDb {
    /// give up the thread-local state through `Storage::into_zalsa_handle` (partially filled
    /// pages go back to the shared pool) and continue on a new `Storage` built from the handle
    pub fn park_and_resume(self) -> VDb {
        let VDb { storage, ctx } = self;
        let handle = storage.into_zalsa_handle();
        VDb { storage: handle.into_storage(), ctx }
    }
}

#[salsa::db]
impl Vd for VDb {
    fn ctx(&self) -> &Ctx {
        &self.ctx
    }
}

fn dur(d: D) -> Durability {
    match d {
        D::Low => Durability::LOW,
        D::Med => Durability::MEDIUM,
        D::High => Durability::HIGH,
        D::Never => Durability::NEVER_CHANGE,
    }
}

// ---------------------------------------------------------------------------------------------
// tracked functions: every body is the interpreter
// ---------------------------------------------------------------------------------------------

fn node_of(db: &dyn Vd, k: NodeKey) -> (u8, u8) {
    *db.ctx().keymap.lock().unwrap().get(&k.as_id().as_bits()).expect("unknown NodeKey")
}

/// A second function keyed by the same input as the node functions: the memo table of a struct is
/// shared by every function keyed by it and allocated by whichever stores its first memo.
#[salsa::tracked]
pub fn key_tag(db: &dyn Vd, k: NodeKey) -> u32 {
    k.tag(db)
}

#[cfg_attr(feature = "persist", salsa::tracked(returns(clone), persist))]
#[cfg_attr(not(feature = "persist"), salsa::tracked(returns(clone)))]
pub fn plain<'db>(db: &'db dyn Vd, k: NodeKey) -> Out<'db> {
    let (n, a) = node_of(db, k);
    interp_node(db, n, a)
}

#[salsa::tracked(returns(clone), no_eq)]
pub fn plain_noeq<'db>(db: &'db dyn Vd, k: NodeKey) -> Out<'db> {
    let (n, a) = node_of(db, k);
    interp_node(db, n, a)
}

#[cfg_attr(feature = "persist", salsa::tracked(returns(ref), persist))]
#[cfg_attr(not(feature = "persist"), salsa::tracked(returns(ref)))]
pub fn plain_ref<'db>(db: &'db dyn Vd, k: NodeKey) -> Out<'db> {
    let (n, a) = node_of(db, k);
    interp_node(db, n, a)
}

#[cfg_attr(feature = "persist", salsa::tracked(returns(clone), persist))]
#[cfg_attr(not(feature = "persist"), salsa::tracked(returns(clone)))]
pub fn zero0<'db>(db: &'db dyn Vd) -> Out<'db> {
    let n = db.ctx().zero_nodes[0].expect("zero0 not mapped");
    interp_node(db, n, 0)
}

#[salsa::tracked(returns(clone))]
pub fn zero1<'db>(db: &'db dyn Vd) -> Out<'db> {
    let n = db.ctx().zero_nodes[1].expect("zero1 not mapped");
    interp_node(db, n, 0)
}

#[cfg_attr(feature = "persist", salsa::tracked(returns(clone), persist))]
#[cfg_attr(not(feature = "persist"), salsa::tracked(returns(clone)))]
pub fn two<'db>(db: &'db dyn Vd, node: u32, arg: u32) -> Out<'db> {
    interp_node(db, node as u8, arg as u8)
}

#[salsa::tracked(returns(clone), lru = 4)]
pub fn lru<'db>(db: &'db dyn Vd, k: NodeKey) -> Out<'db> {
    let (n, a) = node_of(db, k);
    interp_node(db, n, a)
}

#[cfg_attr(feature = "persist", salsa::tracked(returns(clone), persist))]
#[cfg_attr(not(feature = "persist"), salsa::tracked(returns(clone)))]
pub fn on_ent<'db>(db: &'db dyn Vd, e: Ent<'db>) -> Out<'db> {
    let ctx = db.ctx();
    let prog = ctx.prog.clone();
    interp(db, LKey::OnEnt(e.as_id().as_bits()), &prog.on_ent, 0, vec![e], vec![], false)
}

#[salsa::tracked(returns(clone), specify)]
pub fn on_ent_spec<'db>(db: &'db dyn Vd, e: Ent<'db>) -> Out<'db> {
    let ctx = db.ctx();
    let prog = ctx.prog.clone();
    interp(db, LKey::OnEntSpec(e.as_id().as_bits()), &prog.on_ent_spec, 0, vec![e], vec![], false)
}

#[cfg_attr(feature = "persist", salsa::tracked(returns(clone), persist))]
#[cfg_attr(not(feature = "persist"), salsa::tracked(returns(clone)))]
pub fn on_sym1<'db>(db: &'db dyn Vd, s: Sym1<'db>) -> Out<'db> {
    let prog = db.ctx().prog.clone();
    interp(db, LKey::OnSym(0, s.as_id().as_bits()), &prog.on_sym, 0, vec![], vec![SymAny::S1(s)], false)
}

#[salsa::tracked(returns(clone))]
pub fn on_sym2<'db>(db: &'db dyn Vd, s: Sym2<'db>) -> Out<'db> {
    let prog = db.ctx().prog.clone();
    interp(db, LKey::OnSym(1, s.as_id().as_bits()), &prog.on_sym, 0, vec![], vec![SymAny::S2(s)], false)
}

// --- cyclic kinds ---

fn fix_initial<'db>(_db: &'db dyn Vd, _id: salsa::Id, _k: NodeKey) -> Out<'db> {
    fault::tick(Site::CycleInitial);
    Out::bare(0)
}

#[salsa::tracked(returns(clone), cycle_initial = fix_initial)]
pub fn fix<'db>(db: &'db dyn Vd, k: NodeKey) -> Out<'db> {
    let (n, a) = node_of(db, k);
    interp_node(db, n, a)
}

fn join_fn<'db>(_db: &'db dyn Vd, _c: &salsa::Cycle, last: &Out<'db>, value: Out<'db>, _k: NodeKey) -> Out<'db> {
    fault::tick(Site::CycleFn);
    Out::bare(last.v | value.v)
}

#[salsa::tracked(returns(clone), cycle_fn = join_fn, cycle_initial = fix_initial)]
pub fn fix_join<'db>(db: &'db dyn Vd, k: NodeKey) -> Out<'db> {
    let (n, a) = node_of(db, k);
    interp_node(db, n, a)
}

pub const FALLBACK_BASE: u32 = 0x100;

fn fall_result<'db>(db: &'db dyn Vd, _id: salsa::Id, k: NodeKey) -> Out<'db> {
    let (n, _a) = node_of(db, k);
    Out::bare(FALLBACK_BASE + n as u32)
}

#[salsa::tracked(returns(clone), cycle_result = fall_result)]
pub fn fall<'db>(db: &'db dyn Vd, k: NodeKey) -> Out<'db> {
    let (n, a) = node_of(db, k);
    interp_node(db, n, a)
}

fn div_fn<'db>(_db: &'db dyn Vd, _c: &salsa::Cycle, _last: &Out<'db>, value: Out<'db>, _k: NodeKey) -> Out<'db> {
    fault::tick(Site::CycleFn);
    value
}

#[salsa::tracked(returns(clone), cycle_fn = div_fn, cycle_initial = fix_initial)]
pub fn div<'db>(db: &'db dyn Vd, k: NodeKey) -> Out<'db> {
    let (n, a) = node_of(db, k);
    interp_node(db, n, a)
}

// ---------------------------------------------------------------------------------------------
// interpreter
// ---------------------------------------------------------------------------------------------

pub fn call_node<'db>(db: &'db dyn Vd, node: u8, arg: u8) -> Out<'db> {
    let ctx = db.ctx();
    let n = &ctx.prog.nodes[node as usize];
    let arg = arg % n.nargs;
    match n.kind {
        Kind::Plain => plain(db, ctx.nodekey(node, arg)),
        Kind::NoEq => plain_noeq(db, ctx.nodekey(node, arg)),
        Kind::Ref => plain_ref(db, ctx.nodekey(node, arg)).clone(),
        Kind::Zero => {
            if ctx.zero_nodes[0] == Some(node) {
                zero0(db)
            } else {
                zero1(db)
            }
        }
        Kind::Two => two(db, node as u32, arg as u32),
        Kind::Lru => lru(db, ctx.nodekey(node, arg)),
        Kind::Fix => fix(db, ctx.nodekey(node, arg)),
        Kind::FixJoin => fix_join(db, ctx.nodekey(node, arg)),
        Kind::Fall => fall(db, ctx.nodekey(node, arg)),
        Kind::Div => div(db, ctx.nodekey(node, arg)),
    }
}

/// marks, in salsa's own totally ordered protocol trace, the span in which the body of a function
/// with cycle recovery runs on this thread (local cancellation is deferred in that span)
struct CycSpan(u64);
impl CycSpan {
    fn enter(node: u8) -> CycSpan {
        let t = salsa::verif_hooks::current_thread_u64();
        salsa::verif_hooks::trace(salsa::verif_hooks::TraceEvent::Raw("cyc-enter", t, node as u64, 0));
        CycSpan(t)
    }
}
impl Drop for CycSpan {
    fn drop(&mut self) {
        salsa::verif_hooks::trace(salsa::verif_hooks::TraceEvent::Raw("cyc-exit", self.0, 0, 0));
    }
}

fn interp_node<'db>(db: &'db dyn Vd, node: u8, arg: u8) -> Out<'db> {
    let prog = db.ctx().prog.clone();
    let n = &prog.nodes[node as usize];
    let acc0 = if prog.lattice { 0 } else { arg as u32 % VMOD };
    let _span = matches!(n.kind, Kind::Fix | Kind::FixJoin | Kind::Fall | Kind::Div).then(|| CycSpan::enter(node));
    interp(db, LKey::Node(node, arg), &n.body, acc0, vec![], vec![], n.ret_h)
}

struct Frame<'db> {
    acc: u32,
    ents: Vec<Ent<'db>>,
    syms: Vec<SymAny<'db>>,
    mine: Vec<usize>,
    occ: HashMap<u32, u32>,
    rec: ExecRec,
    any_read: bool,
    /// running durability, salsa's rule: min over everything read so far (3 = NEVER_CHANGE)
    dur: u8,
}

fn interp<'db>(
    db: &'db dyn Vd,
    key: LKey,
    body: &[Op],
    acc0: u32,
    ents: Vec<Ent<'db>>,
    syms: Vec<SymAny<'db>>,
    ret_h: bool,
) -> Out<'db> {
    let ctx = db.ctx();
    let tid = fault::tid();
    ctx.push(Rec::Start(key, tid));
    fault::tick(Site::BodyStart);
    let mut f = Frame { acc: acc0, ents, syms, mine: vec![], occ: HashMap::new(), rec: ExecRec::new(key, tid), any_read: false, dur: 3 };
    run_ops(db, ctx, &mut f, body);
    let tok = match key {
        LKey::Node(n, a) => Tok::new(&ctx.live[n as usize][a as usize]),
        _ => Tok::default(),
    };
    let out = if ret_h {
        Out { v: f.acc, dur: f.dur, ents: f.ents, syms: f.syms, tok }
    } else {
        Out { v: f.acc, dur: f.dur, ents: vec![], syms: vec![], tok }
    };
    f.rec.out = out.repr();
    f.rec.dur = f.dur;
    ctx.push(Rec::End(Box::new(f.rec)));
    out
}

fn src_val(s: Src, acc: u32) -> u32 {
    match s {
        Src::Const(c) => c,
        Src::Acc => acc,
    }
}

fn read_slot(db: &dyn Vd, ctx: &Ctx, f: &mut Frame, slot: u8, field: u8) -> u32 {
    let s = ctx.slot(slot);
    let v = if field == 0 { s.f0(db) } else { s.f1(db) };
    f.dur = f.dur.min(ctx.field_durs.lock().unwrap()[slot as usize][field as usize]);
    if !f.rec.reads.contains(&(slot, field)) {
        f.rec.reads.push((slot, field));
    }
    f.any_read = true;
    v
}

fn do_call<'db>(db: &'db dyn Vd, ctx: &Ctx, f: &mut Frame<'db>, node: u8, arg: Src) -> Out<'db> {
    let n = &ctx.prog.nodes[node as usize];
    let a = (src_val(arg, f.acc) % n.nargs as u32) as u8;
    let out = call_node(db, node, a);
    ctx.push(Rec::Used(LKey::Node(node, a), f.rec.tid));
    f.rec.calls.push(LKey::Node(node, a));
    f.any_read = true;
    f.dur = f.dur.min(out.dur);
    f.ents.extend(out.ents.iter().copied());
    f.syms.extend(out.syms.iter().copied());
    out
}

fn run_ops<'db>(db: &'db dyn Vd, ctx: &Ctx, f: &mut Frame<'db>, ops: &[Op]) {
    let lattice = ctx.prog.lattice;
    for op in ops {
        fault::tick(Site::Op);
        ctx.hook(YieldAt::Op);
        match op {
            Op::Read { slot, field } if ctx.prog.maxplus => {
                let v = read_slot(db, ctx, f, *slot, *field);
                f.acc = f.acc.max(v % VMOD);
            }
            Op::Call { node, arg } if ctx.prog.maxplus => {
                let out = do_call(db, ctx, f, *node, *arg);
                f.acc = f.acc.max(out.v);
            }
            Op::UntrackedBelow { cell, below } => {
                if f.acc < *below {
                    db.report_untracked_read();
                    let v = ctx.cells.lock().unwrap()[*cell as usize];
                    f.rec.untracked = true;
                    f.any_read = true;
                    f.dur = 0;
                    f.acc = f.acc.max((v % VMOD).min(*below));
                }
            }
            Op::CallMax { node, arg, add, guard } => {
                if f.acc < MAXCAP && f.acc >= *guard {
                    let out = do_call(db, ctx, f, *node, *arg);
                    f.acc = f.acc.max((out.v + *add).min(MAXCAP));
                }
            }
            Op::Read { slot, field } => {
                let v = read_slot(db, ctx, f, *slot, *field);
                if lattice {
                    f.acc |= 1 << (v % VMOD);
                } else {
                    f.acc = mix(f.acc, v);
                }
            }
            Op::Call { node, arg } => {
                let out = do_call(db, ctx, f, *node, *arg);
                if lattice {
                    f.acc |= out.v;
                } else {
                    f.acc = mix(f.acc, out.v);
                }
            }
            Op::CallMask { node, arg, slot, field } => {
                let m = read_slot(db, ctx, f, *slot, *field);
                let out = do_call(db, ctx, f, *node, *arg);
                f.acc |= out.v & MASKS[(m % VMOD) as usize];
            }
            Op::CallShift { node, arg } => {
                let out = do_call(db, ctx, f, *node, *arg);
                f.acc |= (out.v << 1) & 0xFF;
            }
            Op::CallSat { node, arg, mask } => {
                if f.acc & *mask != *mask {
                    let out = do_call(db, ctx, f, *node, *arg);
                    f.acc |= out.v & *mask;
                }
            }
            Op::CallInc { node, arg, slot, field } => {
                let cap = read_slot(db, ctx, f, *slot, *field);
                let out = do_call(db, ctx, f, *node, *arg);
                let nv = out.v.saturating_add(1);
                let nv = if cap % VMOD == 3 { nv } else { nv.min(cap % VMOD) };
                f.acc = f.acc.max(nv);
            }
            Op::CallNot { node, arg } => {
                let out = do_call(db, ctx, f, *node, *arg);
                f.acc = (!out.v) & 1;
            }
            Op::If { slot, field, thr, then, els } => {
                let v = read_slot(db, ctx, f, *slot, *field);
                if v >= *thr {
                    run_ops(db, ctx, f, then);
                } else {
                    run_ops(db, ctx, f, els);
                }
            }
            Op::NewEnt { ident } => {
                let id_v = src_val(*ident, f.acc) % VMOD;
                let e = Ent::new(db, IV(id_v), FV(f.acc), FV(f.acc));
                let occ = f.occ.entry(id_v).or_insert(0);
                let made = Created { ident: id_v, occ: *occ, id: e.as_id().as_bits(), tv: f.acc, tn: f.acc, after_read: f.any_read, dur: f.dur };
                ctx.ent_durs.lock().unwrap().insert(e.as_id().as_bits(), f.dur);
                ctx.push(Rec::Made(f.rec.key, made.clone()));
                f.rec.created.push(made);
                *occ += 1;
                f.mine.push(f.ents.len());
                f.ents.push(e);
            }
            Op::EntField { h, which } => {
                if !f.ents.is_empty() {
                    let e = f.ents[*h as usize % f.ents.len()];
                    let v = match which {
                        0 => e.ident(db).0,
                        1 => e.tv(db).0,
                        _ => e.tn(db).0,
                    };
                    f.rec.ent_reads.push((e.as_id().as_bits(), (*which).min(2)));
                    if *which != 0 {
                        f.any_read = true;
                        f.dur = f.dur.min(ctx.ent_durs.lock().unwrap().get(&e.as_id().as_bits()).copied().unwrap_or(0));
                    }
                    f.acc = mix(f.acc, v);
                }
            }
            Op::CallOnEnt { h } => {
                if !f.ents.is_empty() {
                    let e = f.ents[*h as usize % f.ents.len()];
                    let out = on_ent(db, e);
                    f.rec.calls.push(LKey::OnEnt(e.as_id().as_bits()));
                    f.any_read = true;
                    f.dur = f.dur.min(out.dur);
                    f.acc = mix(f.acc, out.v);
                }
            }
            Op::CallOnEntSpec { h } => {
                if !f.ents.is_empty() {
                    let e = f.ents[*h as usize % f.ents.len()];
                    let out = on_ent_spec(db, e);
                    f.rec.calls.push(LKey::OnEntSpec(e.as_id().as_bits()));
                    f.any_read = true;
                    f.dur = f.dur.min(out.dur);
                    f.acc = mix(f.acc, out.v);
                }
            }
            Op::Specify { h, val } => {
                if !f.mine.is_empty() {
                    let e = f.ents[f.mine[*h as usize % f.mine.len()]];
                    let v = src_val(*val, f.acc) % VMOD;
                    f.rec.specified.push((e.as_id().as_bits(), v));
                    on_ent_spec::specify(db, e, Out::bare(v));
                }
            }
            Op::SpecifyAny { h, val } => {
                if !f.ents.is_empty() {
                    let e = f.ents[*h as usize % f.ents.len()];
                    let v = src_val(*val, f.acc) % VMOD;
                    f.rec.specified.push((e.as_id().as_bits(), v));
                    on_ent_spec::specify(db, e, Out::bare(v));
                }
            }
            Op::Intern { ty, x } => {
                let xv = src_val(*x, f.acc);
                let s = match ty {
                    0 => SymAny::S1(Sym1::new(db, SV(xv))),
                    1 => SymAny::S2(Sym2::new(db, SV(xv))),
                    2 => SymAny::S3(Sym3::new(db, SV(xv))),
                    _ => SymAny::SI(SymImm::new(db, FV(xv))),
                };
                f.rec.interned.push((s.ty(), xv, s.id(), f.any_read));
                f.syms.push(s);
            }
            Op::SymField { h } => {
                if !f.syms.is_empty() {
                    let s = f.syms[*h as usize % f.syms.len()];
                    let v = s.x(db);
                    f.rec.sym_reads.push((s.ty(), s.id()));
                    f.acc = mix(f.acc, v % VMOD);
                }
            }
            Op::CallOnSym { h } => {
                let cands: Vec<SymAny<'db>> = f.syms.iter().copied().filter(|s| s.ty() <= 1).collect();
                if !cands.is_empty() {
                    let s = cands[*h as usize % cands.len()];
                    let out = match s {
                        SymAny::S1(s1) => on_sym1(db, s1),
                        SymAny::S2(s2) => on_sym2(db, s2),
                        _ => unreachable!(),
                    };
                    f.rec.calls.push(LKey::OnSym(s.ty(), s.id()));
                    f.any_read = true;
                    f.dur = f.dur.min(out.dur);
                    f.acc = mix(f.acc, out.v);
                }
            }
            Op::Untracked { cell } => {
                db.report_untracked_read();
                let v = ctx.cells.lock().unwrap()[*cell as usize];
                f.rec.untracked = true;
                f.any_read = true;
                f.dur = 0;
                f.acc = mix(f.acc, v);
            }
            Op::Acc => {
                let tag = match f.rec.key {
                    LKey::Node(n, a) => ((n as u32) << 8) | ((a as u32) << 4),
                    _ => 0xF000,
                };
                let val = tag | (f.acc & 0xF);
                Diag(val).accumulate(db);
                f.rec.pushed.push(val);
            }
        }
    }
}

// ---------------------------------------------------------------------------------------------
// World: a database + its context, with panic-catching top-level operations
// ---------------------------------------------------------------------------------------------

/// what a top-level request observed (owned; no 'db lifetime)
#[derive(Clone, Debug, PartialEq, Eq)]
pub struct Got {
    pub v: u32,
    /// (id, ident, tv, tn)
    pub ents: Vec<(u64, u32, u32, u32)>,
    /// (type, id, data)
    pub syms: Vec<(u8, u64, u32)>,
}

#[derive(Clone, Debug, PartialEq, Eq)]
pub enum Pan {
    Msg(String),
    Injected(u64, Site),
    Cancelled(String),
    Budget,
}

impl Pan {
    pub fn text(&self) -> String {
        match self {
            Pan::Msg(m) => m.clone(),
            Pan::Injected(k, s) => format!("injected#{k}@{s:?}"),
            Pan::Cancelled(c) => format!("Cancelled::{c}"),
            Pan::Budget => "execution budget exceeded".into(),
        }
    }
}

pub fn classify_panic(p: Box<dyn std::any::Any + Send>) -> Pan {
    if let Some(i) = p.downcast_ref::<fault::Injected>() {
        return Pan::Injected(i.0, i.1);
    }
    if p.downcast_ref::<BudgetExceeded>().is_some() {
        return Pan::Budget;
    }
    if let Some(c) = p.downcast_ref::<salsa::Cancelled>() {
        return Pan::Cancelled(format!("{c:?}"));
    }
    if let Some(s) = p.downcast_ref::<String>() {
        return Pan::Msg(s.clone());
    }
    if let Some(s) = p.downcast_ref::<&'static str>() {
        return Pan::Msg((*s).to_string());
    }
    Pan::Msg("<non-string panic payload>".into())
}

pub struct World {
    pub db: VDb,
    pub ctx: Arc<Ctx>,
}

pub const EXEC_BUDGET: usize = 200_000;

pub fn new_ctx(prog: Arc<Program>, cells: Vec<u32>) -> Arc<Ctx> {
    let mut zero_nodes = [None, None];
    let mut zi = 0;
    for (i, n) in prog.nodes.iter().enumerate() {
        if n.kind == Kind::Zero && zi < 2 {
            zero_nodes[zi] = Some(i as u8);
            zi += 1;
        }
    }
    let live = prog.nodes.iter().map(|n| (0..n.nargs).map(|_| Arc::new(AtomicUsize::new(0))).collect()).collect();
    Arc::new(Ctx {
        prog,
        cells: Mutex::new(cells),
        log: Mutex::new(Vec::new()),
        keymap: Mutex::new(HashMap::new()),
        nodekeys: Mutex::new(Vec::new()),
        slots: Mutex::new(Vec::new()),
        zero_nodes,
        live,
        yield_hook: Mutex::new(None),
        exec_budget: AtomicUsize::new(EXEC_BUDGET),
        log_check_cancel: std::sync::atomic::AtomicBool::new(false),
        field_durs: Mutex::new(Vec::new()),
        ent_durs: Mutex::new(HashMap::new()),
    })
}

impl World {
    /// `vals[slot][field] = (value, durability)`
    pub fn new(prog: Arc<Program>, vals: &[[(u32, D); 2]], cells: Vec<u32>) -> World {
        COARSE_IDENT_HASH.store(prog.coarse_hash, Ordering::SeqCst);
        SYM_VALUE_HASH.store(prog.sym_hash, Ordering::SeqCst);
        let ctx = new_ctx(prog.clone(), cells);
        let c2 = ctx.clone();
        let storage = salsa::Storage::new(Some(Box::new(move |ev| c2.on_event(ev))));
        let db = VDb { storage, ctx: ctx.clone() };
        for s in vals {
            let slot = Slot::builder(s[0].0, s[1].0).f0_durability(dur(s[0].1)).f1_durability(dur(s[1].1)).new(&db);
            ctx.slots.lock().unwrap().push(slot);
            ctx.field_durs.lock().unwrap().push([s[0].1.idx() as u8, s[1].1.idx() as u8]);
        }
        for (i, n) in prog.nodes.iter().enumerate() {
            let mut row = Vec::new();
            for a in 0..n.nargs {
                let k = NodeKey::new(&db, (i as u32) << 8 | a as u32);
                ctx.keymap.lock().unwrap().insert(k.as_id().as_bits(), (i as u8, a));
                row.push(k);
            }
            ctx.nodekeys.lock().unwrap().push(row);
        }
        World { db, ctx }
    }

    /// Serialize the database with serde_json, deserialize it into a fresh database of the same
    /// type and return the world around the restored database (C26). Handles of inputs are
    /// re-obtained by enumerating the restored ingredients in allocation order.
    #[cfg(feature = "persist")]
    pub fn snapshot_roundtrip(&mut self) -> Result<World, Pan> {
        use salsa::plumbing::ZalsaDatabase;
        let prev = fault::pause();
        let db = &mut self.db;
        let json = catch_unwind(AssertUnwindSafe(|| serde_json::to_string(&<dyn salsa::Database>::as_serialize(db)))).map_err(|p| {
            fault::resume(prev);
            Pan::Msg(format!("serialize panicked: {}", classify_panic(p).text()))
        })?;
        let json = json.map_err(|e| {
            fault::resume(prev);
            Pan::Msg(format!("serialize failed: {e}"))
        })?;
        if std::env::var_os("VH_DUMP_JSON").is_some() {
            eprintln!("{json}");
        }
        let cells = self.ctx.cells.lock().unwrap().clone();
        let ctx = new_ctx(self.ctx.prog.clone(), cells);
        *ctx.field_durs.lock().unwrap() = self.ctx.field_durs.lock().unwrap().clone();
        *ctx.ent_durs.lock().unwrap() = self.ctx.ent_durs.lock().unwrap().clone();
        let c2 = ctx.clone();
        let storage = salsa::Storage::new(Some(Box::new(move |ev| c2.on_event(ev))));
        let mut db2 = VDb { storage, ctx: ctx.clone() };
        let r = catch_unwind(AssertUnwindSafe(|| <dyn salsa::Database>::deserialize(&mut db2, &mut serde_json::Deserializer::from_str(&json))));
        fault::resume(prev);
        match r {
            Err(p) => return Err(Pan::Msg(format!("deserialize panicked: {}", classify_panic(p).text()))),
            Ok(Err(e)) => return Err(Pan::Msg(format!("deserialize failed: {e}"))),
            Ok(Ok(())) => {}
        }
        let slots: Vec<Slot> = Slot::ingredient(&db2).entries(db2.zalsa()).map(|e| e.as_struct()).collect();
        if slots.len() != self.ctx.slots.lock().unwrap().len() {
            return Err(Pan::Msg(format!("restored database has {} Slot inputs, expected {}", slots.len(), self.ctx.slots.lock().unwrap().len())));
        }
        *ctx.slots.lock().unwrap() = slots;
        let keys: Vec<NodeKey> = NodeKey::ingredient(&db2).entries(db2.zalsa()).map(|e| e.as_struct()).collect();
        let mut rows: Vec<Vec<Option<NodeKey>>> = self.ctx.prog.nodes.iter().map(|n| vec![None; n.nargs as usize]).collect();
        for k in keys {
            let tag = k.tag(&db2);
            let (n, a) = ((tag >> 8) as usize, (tag & 0xFF) as usize);
            if n < rows.len() && a < rows[n].len() {
                rows[n][a] = Some(k);
                ctx.keymap.lock().unwrap().insert(k.as_id().as_bits(), (n as u8, a as u8));
            }
        }
        let mut out = vec![];
        for r in rows {
            let mut row = vec![];
            for k in r {
                match k {
                    Some(k) => row.push(k),
                    None => return Err(Pan::Msg("restored database misses a NodeKey input".into())),
                }
            }
            out.push(row);
        }
        *ctx.nodekeys.lock().unwrap() = out;
        Ok(World { db: db2, ctx })
    }

    #[cfg(not(feature = "persist"))]
    pub fn snapshot_roundtrip(&mut self) -> Result<World, Pan> {
        Err(Pan::Msg("built without the persist feature".into()))
    }

    pub fn reset_budget(&self) {
        self.ctx.exec_budget.store(EXEC_BUDGET, Ordering::SeqCst);
    }

    pub fn set(&mut self, slot: u8, field: u8, val: u32, d: Option<D>) -> Result<(), Pan> {
        let s = self.ctx.slot(slot);
        let db = &mut self.db;
        let ctx = self.ctx.clone();
        let r = catch_unwind(AssertUnwindSafe(|| {
            match (field, d) {
                (0, None) => s.set_f0(db).to(val),
                (0, Some(d)) => s.set_f0(db).with_durability(dur(d)).to(val),
                (_, None) => s.set_f1(db).to(val),
                (_, Some(d)) => s.set_f1(db).with_durability(dur(d)).to(val),
            };
        }))
        .map_err(classify_panic);
        if let (Ok(()), Some(d)) = (&r, d) {
            ctx.field_durs.lock().unwrap()[slot as usize][field as usize] = d.idx() as u8;
        }
        r
    }

    pub fn synth(&mut self, d: D) -> Result<(), Pan> {
        let db = &mut self.db;
        catch_unwind(AssertUnwindSafe(|| db.synthetic_write(dur(d)))).map_err(classify_panic)
    }

    pub fn set_cell(&mut self, cell: u8, val: u32) {
        self.ctx.cells.lock().unwrap()[cell as usize] = val;
    }

    pub fn evict(&mut self) -> Result<(), Pan> {
        let db = &mut self.db;
        catch_unwind(AssertUnwindSafe(|| db.trigger_lru_eviction())).map_err(classify_panic)
    }

    pub fn lru_cap(&mut self, cap: usize) -> Result<(), Pan> {
        let db = &mut self.db;
        catch_unwind(AssertUnwindSafe(|| lru::set_lru_capacity(db, cap))).map_err(classify_panic)
    }

    /// current value of an input field, read outside any query (harness bookkeeping only)
    pub fn peek(&self, slot: u8, field: u8) -> u32 {
        let prev = fault::pause();
        let s = self.ctx.slot(slot);
        let v = if field == 0 { s.f0(&self.db) } else { s.f1(&self.db) };
        fault::resume(prev);
        v
    }

    pub fn get(&self, node: u8, arg: u8) -> Result<Got, Pan> {
        self.get_on(&self.db, node, arg)
    }

    pub fn get_on(&self, db: &VDb, node: u8, arg: u8) -> Result<Got, Pan> {
        catch_unwind(AssertUnwindSafe(|| {
            let out = call_node(db, node, arg);
            db.ctx().push(Rec::Used(LKey::Node(node, arg % db.ctx().prog.nodes[node as usize].nargs), fault::tid()));
            let prev = fault::pause();
            let g = Got {
                v: out.v,
                ents: out.ents.iter().map(|e| (e.as_id().as_bits(), e.ident(db).0, e.tv(db).0, e.tn(db).0)).collect(),
                syms: out.syms.iter().map(|s| (s.ty(), s.id(), s.x(db))).collect(),
            };
            fault::resume(prev);
            g
        }))
        .map_err(classify_panic)
    }

    pub fn get_acc(&self, node: u8, arg: u8) -> Result<Vec<u32>, Pan> {
        let db = &self.db;
        let ctx = &self.ctx;
        catch_unwind(AssertUnwindSafe(|| {
            let n = &ctx.prog.nodes[node as usize];
            let arg = arg % n.nargs;
            let v: Vec<&Diag> = match n.kind {
                Kind::Plain => plain::accumulated::<Diag>(db, ctx.nodekey(node, arg)),
                Kind::NoEq => plain_noeq::accumulated::<Diag>(db, ctx.nodekey(node, arg)),
                Kind::Ref => plain_ref::accumulated::<Diag>(db, ctx.nodekey(node, arg)),
                Kind::Zero => {
                    if ctx.zero_nodes[0] == Some(node) {
                        zero0::accumulated::<Diag>(db)
                    } else {
                        zero1::accumulated::<Diag>(db)
                    }
                }
                Kind::Two => two::accumulated::<Diag>(db, node as u32, arg as u32),
                Kind::Lru => lru::accumulated::<Diag>(db, ctx.nodekey(node, arg)),
                _ => panic!("accumulated on cyclic kind not supported by the harness"),
            };
            v.into_iter().map(|d| d.0).collect()
        }))
        .map_err(classify_panic)
    }

    pub fn intern_top(&self, ty: u8, x: u32) -> Result<(u8, u64, u32), Pan> {
        let db = &self.db;
        catch_unwind(AssertUnwindSafe(|| {
            let s = match ty {
                0 => SymAny::S1(Sym1::new(db, SV(x))),
                1 => SymAny::S2(Sym2::new(db, SV(x))),
                2 => SymAny::S3(Sym3::new(db, SV(x))),
                _ => SymAny::SI(SymImm::new(db, FV(x))),
            };
            (s.ty(), s.id(), s.x(db))
        }))
        .map_err(classify_panic)
    }

    pub fn take_log(&self) -> Vec<Rec> {
        std::mem::take(&mut *self.ctx.log.lock().unwrap())
    }

    pub fn live(&self, node: u8, arg: u8) -> usize {
        self.ctx.live[node as usize][arg as usize].load(Ordering::SeqCst)
    }

    pub fn ent_entries(&self) -> usize {
        use salsa::plumbing::ZalsaDatabase;
        Ent::ingredient(&self.db).entries(self.db.zalsa()).count()
    }
}

//! `coop` engine: real threads under a harness-owned schedule (anything that unwinds:
//! C14 with threads, C20, C21, the waiter half of C22).
//!
//! A baton scheduler: a worker runs only while it holds the baton. Yield points (worker hands the
//! baton back and waits to be picked again): between top-level calls, every body op, and the
//! `WillCheckCancellation` / `WillExecute` events. Block markers (`WillBlockOn`,
//! `DidSetCancellationFlag`): the worker marks itself blocked-in-salsa, returns the baton and
//! continues into salsa's wait; it re-joins the schedule at its next yield point. The next
//! worker is chosen by the case's schedule tape, so schedules are generated and shrinkable.
//! No runnable worker + no worker arriving at a yield point within the grace period = hang.

#![cfg(not(feature = "shuttle"))]

use std::collections::BTreeSet;
use std::sync::atomic::{AtomicBool, AtomicU64, Ordering};
use std::sync::{Arc, Condvar, Mutex};
use std::time::{Duration, Instant};

use serde::{Deserialize, Serialize};

use crate::fault;
use crate::lat::{Lat, LatWant};
use crate::obs::*;
use crate::prog::*;
use crate::refm::*;
use crate::seq::{SeqOutcome, Violation, got_matches};
use crate::tape::Tape;
use crate::world::*;

pub const KF_C14_PROVISIONAL: &str = "kf:c14-plain-member-returns-provisional-value-of-head-on-other-thread";
pub const GRACE: Duration = Duration::from_millis(6000);

#[derive(Clone, Copy, Debug, PartialEq, Eq)]
enum St {
    /// parked at a yield point, waiting for the baton
    Ready,
    /// holds the baton
    Running,
    /// inside (or returning from) a salsa wait; runs without the baton until its next yield point
    Blocked,
    Finished,
}

struct SchedState {
    st: Vec<St>,
    /// monotonically increasing; bumped whenever some worker changes state
    epoch: u64,
}

pub struct Sched {
    state: Mutex<SchedState>,
    cv: Condvar,
    /// the harness has seen `DidSetCancellationFlag`
    pub flag_seen: AtomicBool,
    /// set when the run is abandoned (hang): parked workers stay parked forever
    pub abandoned: AtomicBool,
    pub switches: AtomicU64,
    pub blocks: AtomicU64,
}

impl Sched {
    fn new(n: usize) -> Arc<Sched> {
        Arc::new(Sched {
            state: Mutex::new(SchedState { st: vec![St::Ready; n], epoch: 0 }),
            cv: Condvar::new(),
            flag_seen: AtomicBool::new(false),
            abandoned: AtomicBool::new(false),
            switches: AtomicU64::new(0),
            blocks: AtomicU64::new(0),
        })
    }

    /// worker side: hand the baton back (if held) and wait until granted again
    pub fn yield_now(&self, tid: usize) {
        let mut g = self.state.lock().unwrap();
        g.st[tid] = St::Ready;
        g.epoch += 1;
        self.cv.notify_all();
        while g.st[tid] != St::Running {
            g = self.cv.wait(g).unwrap();
        }
    }

    /// worker side: about to block inside salsa
    pub fn mark_blocked(&self, tid: usize) {
        let mut g = self.state.lock().unwrap();
        g.st[tid] = St::Blocked;
        g.epoch += 1;
        self.blocks.fetch_add(1, Ordering::Relaxed);
        self.cv.notify_all();
    }

    pub fn finish(&self, tid: usize) {
        let mut g = self.state.lock().unwrap();
        g.st[tid] = St::Finished;
        g.epoch += 1;
        self.cv.notify_all();
    }

    fn hook(&self, at: YieldAt) {
        let t = fault::tid() as usize;
        if t == 0 {
            return; // the coordinating (main) thread is not scheduled
        }
        let tid = t - 1;
        match at {
            YieldAt::Op | YieldAt::CheckCancel | YieldAt::WillExecute => self.yield_now(tid),
            YieldAt::WillBlock => self.mark_blocked(tid),
            YieldAt::DidSetCancel => {
                self.flag_seen.store(true, Ordering::SeqCst);
                self.mark_blocked(tid)
            }
        }
    }
}

#[derive(Clone, Debug, PartialEq, Eq, Hash, Serialize, Deserialize)]
pub enum WOp {
    Get { node: u8, arg: u8 },
    /// the writer's mutation (C20)
    Write(Step),
}

#[derive(Clone, Copy, Debug, PartialEq, Eq, Hash, Serialize, Deserialize)]
pub enum Mode {
    /// C20: thread 0 is the writer; it is not scheduled before decision `start_at`
    Writer { start_at: u16 },
    /// C21: `token.cancel()` of thread `target` is delivered at scheduling decision `at`
    Cancel { target: u8, at: u16 },
    /// C14: cycles through functions without recovery, several threads
    PlainCycles,
    /// C22 (waiter half): panic injected at user-code site `site` (global tick counter)
    Fault { site: u32 },
}

#[derive(Clone, Debug, PartialEq, Eq, Hash, Serialize, Deserialize)]
pub struct CoopCase {
    pub prog: Program,
    pub mode: Mode,
    pub plans: Vec<Vec<WOp>>,
    /// scheduling decisions (index into the runnable set, taken modulo its size)
    pub sched: Vec<u32>,
    /// cancel mode over a program with cycles through functions without recovery (requests may
    /// end in cycle panics; waiters may see PropagatedPanic)
    #[serde(default)]
    pub plain_cycles: bool,
}

#[derive(Clone, Debug)]
pub struct CallRes {
    pub op: WOp,
    pub res: Result<Got, Pan>,
    /// the harness had already seen `DidSetCancellationFlag` when this call started
    pub started_after_flag: bool,
    /// scheduling decision counter when the call started / ended
    pub t_start: u64,
    pub t_end: u64,
}

struct ThreadOut {
    calls: Vec<CallRes>,
}

fn viol(rule: &str, detail: String) -> Violation {
    Violation { rule: rule.into(), step: 0, detail }
}

pub fn profile(mode_kind: u8) -> Profile {
    match mode_kind {
        // C20 / C21 / C22: acyclic + fixpoint programs mixed is done by the caller choosing
        1 => {
            // lattice with recovery (fixpoint members) for C20/C21
            let mut pf = Profile::base();
            pf.lattice = true;
            // mixed durabilities: members that read only more durable inputs than the written
            // one are validated through the durability shortcut
            pf.durs = [4, 1, 1, 0];
            pf.max_slots = 2;
            pf.max_nodes = 6;
            pf.max_ops = 3;
            pf.kinds = [0; N_KINDS];
            pf.kinds[6] = 4;
            pf.kinds[7] = 2;
            pf.sat_pct = 30;
            pf
        }
        2 => {
            // C14: plain cycles (mixed 6:1 with fix)
            let mut pf = Profile::base();
            pf.lattice = true;
            pf.durs = [1, 0, 0, 0];
            pf.max_slots = 2;
            pf.max_nodes = 6;
            pf.max_ops = 3;
            pf.kinds = [0; N_KINDS];
            pf.kinds[0] = 6;
            pf.kinds[6] = 1;
            pf
        }
        _ => {
            let mut pf = Profile::base();
            pf.max_nodes = 5;
            pf.max_ops = 4;
            pf.max_slots = 2;
            pf.max_cells = 0;
            pf.durs = [1, 0, 0, 0];
            pf.kinds = [6, 2, 2, 1, 2, 1, 0, 0, 0, 0];
            pf.ops = [5, 8, 2, 2, 2, 2, 0, 0, 2, 1, 1, 0, 0];
            pf
        }
    }
}

/// which: "C20" | "C21" | "C14" | "C22"
pub fn gen_coop_case(tape: &[u32], which: &str) -> CoopCase {
    let mut t = Tape::new(tape);
    // C19 (b): a mix of the four generators
    let from_c19 = which == "C19";
    let which = if which == "C19" { ["C20", "C21", "C21", "C14", "C22"][t.pick(5) as usize] } else { which };
    let lattice = match which {
        "C14" => true,
        _ => t.chance(2, 5),
    };
    let plain_cycles = which == "C21" && lattice && t.chance(if from_c19 { 2 } else { 1 }, 3);
    let pf = if which == "C14" || plain_cycles {
        profile(2)
    } else if lattice {
        let mut p = profile(1);
        if which == "C21" {
            // cycle_result functions run with local cancellation deferred as well; there is no
            // second revision in this mode, so the listed cycle_result findings cannot arise
            p.kinds[8] = 2;
        }
        p
    } else {
        profile(0)
    };
    let prog = gen_program(&mut t, &pf);
    let nn = prog.nodes.len() as u32;
    let nreaders = if which == "C20" { 1 + t.pick(3) } else { 2 + t.pick(2) };
    let mut plans: Vec<Vec<WOp>> = vec![];
    if which == "C20" {
        let slot = t.pick(prog.slots.len() as u32) as u8;
        let lru_nodes: Vec<u8> = prog.nodes.iter().enumerate().filter(|(_, n)| n.kind == Kind::Lru).map(|(i, _)| i as u8).collect();
        let field = t.pick(2) as u8;
        let val = t.pick(VMOD);
        // a write that reshapes the call graph of a cyclic program can trip the listed
        // backdate-assertion finding (cyc-kf2), which cannot be classified here: use a
        // synthetic write instead (excluded by construction)
        fn any_if(ops: &[Op], w: (u8, u8)) -> bool {
            ops.iter().any(|o| match o {
                Op::If { slot, field, then, els, .. } => (*slot, *field) == w || any_if(then, w) || any_if(els, w),
                _ => false,
            })
        }
        let reshapes = prog.lattice && prog.nodes.iter().any(|n| any_if(&n.body, (slot, field)));
        let step = match if reshapes { 1 } else { t.weighted(&[6, 2, 1, 1]) } {
            0 => Step::Set { slot, field, val, dur: None },
            1 => Step::Synth { dur: D::from_idx(t.pick(3) as usize) },
            2 => Step::Evict,
            _ => {
                if lru_nodes.is_empty() {
                    Step::Evict
                } else {
                    Step::LruCap { node: lru_nodes[0], cap: t.pick(5) as u8 }
                }
            }
        };
        plans.push(vec![WOp::Write(step)]);
    }
    for _ in 0..nreaders {
        let n = 1 + t.pick(4);
        plans.push(
            (0..n)
                .map(|_| {
                    let node = t.pick(nn) as u8;
                    WOp::Get { node, arg: t.pick(prog.nodes[node as usize].nargs as u32) as u8 }
                })
                .collect(),
        );
    }
    let mode = match which {
        "C20" => Mode::Writer { start_at: t.pick(24) as u16 },
        "C21" => Mode::Cancel { target: t.pick(plans.len() as u32) as u8, at: t.pick(40) as u16 },
        "C14" => Mode::PlainCycles,
        _ => Mode::Fault { site: t.pick(4000) },
    };
    let ns = 60 + t.pick(200);
    let sched = (0..ns).map(|_| t.raw()).collect();
    CoopCase { prog, mode, plans, sched, plain_cycles }
}

pub struct CoopRun {
    pub outs: Vec<Vec<CallRes>>,
    pub log: Vec<Rec>,
    pub hang: bool,
    pub decisions: u64,
    pub cancel_delivered_at: Option<u64>,
    pub write_done: bool,
    pub alive_at_write_return: Vec<bool>,
    pub ticks: u64,
    pub fault_fired: bool,
    pub fault_site: fault::Site,
    pub fault_event: u64,
    pub fault_tid: u32,
    pub unstable_finalization: bool,
    /// a cycle was finalized although some head had not converged in its last iteration
    pub early_final: Vec<Violation>,
    pub proto_viol: Vec<Violation>,
    /// threads (harness tid) that waited inside salsa's dependency graph at least once
    pub blocked_tids: BTreeSet<u32>,
    pub proto_blocks: u64,
    pub proto_transfers: u64,
    pub proto_nested: u64,
    pub proto_failed_in_span: u64,
    pub proto_bad_wakes: u64,
}

static POISONED: AtomicBool = AtomicBool::new(false);

pub fn poisoned() -> bool {
    POISONED.load(Ordering::SeqCst)
}

/// Execute the parallel part of a case. `world` is owned by the coordinating thread; thread 0 of
/// a `Mode::Writer` case gets the world's own handle (through a mutex) for its `&mut` operation.
pub fn run_parallel(case: &CoopCase, world: Arc<Mutex<World>>, fault_at: Option<u64>) -> CoopRun {
    let n = case.plans.len();
    let sched = Sched::new(n);
    let ctx = world.lock().unwrap().ctx.clone();
    {
        let s2 = sched.clone();
        *ctx.yield_hook.lock().unwrap() = Some(Arc::new(move |at| s2.hook(at)));
        // every wait inside salsa's dependency graph (also the ones without a WillBlockOn event,
        // e.g. after a lock transfer to a cycle head on another thread) is a block marker
        let s3 = sched.clone();
        salsa::verif_hooks::set_block_hook(Some(Arc::new(move || s3.hook(YieldAt::WillBlock))));
    }
    ctx.log_check_cancel.store(matches!(case.mode, Mode::Cancel { .. }), Ordering::Relaxed);
    salsa::verif_hooks::start();
    let decisions = Arc::new(AtomicU64::new(0));
    let alive: Arc<Vec<AtomicBool>> = Arc::new((0..n).map(|_| AtomicBool::new(true)).collect());
    let alive_at_write_return: Arc<Mutex<Vec<bool>>> = Arc::new(Mutex::new(vec![]));
    let write_done = Arc::new(AtomicBool::new(false));
    let outs: Arc<Mutex<Vec<Option<ThreadOut>>>> = Arc::new(Mutex::new((0..n).map(|_| None).collect()));
    let mut tokens = vec![];
    let mut handles = vec![];
    let thread_ids: Arc<Vec<AtomicU64>> = Arc::new((0..n).map(|_| AtomicU64::new(0)).collect());
    fault::reset(fault_at);
    for (i, plan) in case.plans.iter().enumerate() {
        let is_writer = matches!(plan.first(), Some(WOp::Write(_)));
        let db = if is_writer { None } else { Some(world.lock().unwrap().db.clone()) };
        if let Some(db) = &db {
            use salsa::Database;
            tokens.push(Some(db.cancellation_token()));
        } else {
            tokens.push(None);
        }
        let plan = plan.clone();
        let sched = sched.clone();
        let world = world.clone();
        let decisions = decisions.clone();
        let alive = alive.clone();
        let awr = alive_at_write_return.clone();
        let write_done = write_done.clone();
        let outs = outs.clone();
        let thread_ids_w = thread_ids.clone();
        handles.push(std::thread::spawn(move || {
            fault::set_tid(i as u32 + 1);
            thread_ids_w[i].store(salsa::verif_hooks::current_thread_u64(), Ordering::SeqCst);
            // wait for the first grant
            {
                let mut g = sched.state.lock().unwrap();
                while g.st[i] != St::Running {
                    g = sched.cv.wait(g).unwrap();
                }
            }
            let mut calls = vec![];
            let mut db = db;
            for op in plan {
                let t_start = decisions.load(Ordering::SeqCst);
                let started_after_flag = sched.flag_seen.load(Ordering::SeqCst);
                match &op {
                    WOp::Get { node, arg } => {
                        let Some(dbr) = db.as_ref() else { break };
                        let n = &dbr.ctx().prog.nodes[*node as usize];
                        let arg = *arg % n.nargs;
                        dbr.ctx().push(Rec::CallBegin(i as u32 + 1, calls.len() as u32));
                        let res = std::panic::catch_unwind(std::panic::AssertUnwindSafe(|| {
                            let o = call_node(dbr, *node, arg);
                            let prev = fault::pause();
                            use salsa::plumbing::AsId;
                            let g = Got {
                                v: o.v,
                                ents: o.ents.iter().map(|e| (e.as_id().as_bits(), e.ident(dbr).0, e.tv(dbr).0, e.tn(dbr).0)).collect(),
                                syms: o.syms.iter().map(|s| (s.ty(), s.id(), s.x(dbr))).collect(),
                            };
                            fault::resume(prev);
                            g
                        }))
                        .map_err(classify_panic);
                        dbr.ctx().push(Rec::CallEnd(i as u32 + 1, calls.len() as u32));
                        let cancelled_by_write = matches!(&res, Err(Pan::Cancelled(c)) if c.contains("PendingWrite"));
                        calls.push(CallRes { op: WOp::Get { node: *node, arg }, res, started_after_flag, t_start, t_end: decisions.load(Ordering::SeqCst) });
                        if cancelled_by_write {
                            // a cancelled reader drops its handle so that the writer can proceed
                            alive[i].store(false, Ordering::SeqCst);
                            db = None;
                            break;
                        }
                    }
                    WOp::Write(step) => {
                        let mut w = world.lock().unwrap();
                        let r = match step {
                            Step::Set { slot, field, val, dur } => w.set(*slot, *field, *val, *dur),
                            Step::Synth { dur } => w.synth(*dur),
                            Step::Evict => w.evict(),
                            Step::LruCap { cap, .. } => w.lru_cap(*cap as usize),
                            _ => Ok(()),
                        };
                        // exclusion: when the mutation returns no reader may still hold a handle
                        *awr.lock().unwrap() = alive.iter().enumerate().map(|(j, a)| j != i && a.load(Ordering::SeqCst)).collect();
                        write_done.store(true, Ordering::SeqCst);
                        let res = r.map(|_| Got { v: 0, ents: vec![], syms: vec![] });
                        calls.push(CallRes { op: op.clone(), res, started_after_flag, t_start, t_end: decisions.load(Ordering::SeqCst) });
                    }
                }
                // yield between top-level calls
                sched.yield_now(i);
            }
            alive[i].store(false, Ordering::SeqCst);
            drop(db);
            outs.lock().unwrap()[i] = Some(ThreadOut { calls });
            sched.finish(i);
        }));
    }

    // ---- the scheduler (this thread) ----
    let mut pos = 0usize;
    let mut hang = false;
    let mut cancel_delivered_at = None;
    let t_case = Instant::now();
    loop {
        let mut g = sched.state.lock().unwrap();
        // wait until nobody holds the baton
        loop {
            if !g.st.iter().any(|s| *s == St::Running) {
                break;
            }
            let (g2, to) = sched.cv.wait_timeout(g, GRACE * 4).unwrap();
            g = g2;
            if to.timed_out() && g.st.iter().any(|s| *s == St::Running) {
                hang = true;
                break;
            }
        }
        if hang {
            break;
        }
        if g.st.iter().all(|s| *s == St::Finished) {
            break;
        }
        let mut ready: Vec<usize> = g.st.iter().enumerate().filter(|(_, s)| **s == St::Ready).map(|(i, _)| i).collect();
        if ready.is_empty() {
            // only blocked workers: one of them may be in flight towards a yield point
            let deadline = Instant::now() + GRACE;
            loop {
                let now = Instant::now();
                if now >= deadline {
                    break;
                }
                let (g2, _) = sched.cv.wait_timeout(g, deadline - now).unwrap();
                g = g2;
                if g.st.iter().any(|s| *s == St::Ready) || g.st.iter().all(|s| *s == St::Finished) {
                    break;
                }
            }
            if g.st.iter().all(|s| *s == St::Finished) {
                break;
            }
            ready = g.st.iter().enumerate().filter(|(_, s)| **s == St::Ready).map(|(i, _)| i).collect();
            if ready.is_empty() {
                if std::env::var_os("VH_COOP_TRACE").is_some() {
                    eprintln!("[sched] HANG: states {:?}", g.st);
                }
                hang = true;
                break;
            }
        }
        let d = decisions.fetch_add(1, Ordering::SeqCst);
        // the writer is held back until its start decision (unless nobody else can run)
        if let Mode::Writer { start_at } = case.mode {
            if d < start_at as u64 && ready.len() > 1 {
                ready.retain(|t| *t != 0);
            }
        }
        // external action: deliver the local cancellation
        if let Mode::Cancel { target, at } = case.mode {
            if cancel_delivered_at.is_none() && d >= at as u64 {
                if let Some(Some(tok)) = tokens.get(target as usize) {
                    tok.cancel();
                }
                ctx.push(Rec::CancelDelivered(target as u32 + 1));
                cancel_delivered_at = Some(d);
            }
        }
        let raw = case.sched.get(pos).copied().unwrap_or(0);
        pos += 1;
        let pick = ready[((raw as u64 * ready.len() as u64) >> 32) as usize];
        if std::env::var_os("VH_COOP_TRACE").is_some() {
            eprintln!("[sched] decision {d}: states {:?} -> run thread {}", g.st, pick + 1);
        }
        g.st[pick] = St::Running;
        g.epoch += 1;
        sched.switches.fetch_add(1, Ordering::Relaxed);
        sched.cv.notify_all();
        drop(g);
        if t_case.elapsed() > Duration::from_secs(120) {
            hang = true;
            break;
        }
    }
    let ticks = fault::count();
    let fault_fired = fault::fired();
    let fault_site = fault::last_site();
    let fault_event = fault::fired_event();
    fault::disarm();
    // listed finding cyc-kf1: was a cycle finalized while a head's dependency list still changed?
    let mut unstable_finalization = false;
    let mut early_final: Vec<Violation> = vec![];
    let mut proto_viol = vec![];
    let mut blocked_tids: BTreeSet<u32> = BTreeSet::new();
    let mut proto = crate::props::c19::ProtoCheck::default();
    {
        use salsa::verif_hooks::TraceEvent as T;
        let mut last: std::collections::BTreeMap<(u32, u64), bool> = Default::default();
        let evs = salsa::verif_hooks::drain();
        proto.feed(&evs, &mut proto_viol);
        if !hang {
            proto.finish(&mut proto_viol);
        }
        for e in &evs {
            if let T::Block { waiter, .. } = e {
                if let Some(i) = thread_ids.iter().position(|t| t.load(Ordering::SeqCst) == *waiter) {
                    blocked_tids.insert(i as u32 + 1);
                }
            }
        }
        let mut conv: std::collections::BTreeMap<(u32, u64), (bool, bool)> = Default::default();
        for h in evs {
            if let T::CycleHead { ingredient, key, finalized, deps_stable, value_converged, metadata_converged, heads, .. } = h {
                last.insert((ingredient, key), deps_stable);
                conv.insert((ingredient, key), (value_converged, metadata_converged));
                if finalized {
                    if let Some((k, (vc, mc))) = conv.iter().find(|(k, (vc, mc))| heads.contains(k) && (!*vc || !*mc)) {
                        early_final.push(viol("cycle-finalized-before-convergence", format!("cycle finalized although head {k:?} had value_converged={vc} metadata_converged={mc} in its last iteration")));
                    }
                    for k in &heads {
                        conv.remove(k);
                    }
                    if last.values().any(|s| !*s) {
                        unstable_finalization = true;
                    }
                    last.clear();
                }
            }
        }
    }
    *ctx.yield_hook.lock().unwrap() = None;
    salsa::verif_hooks::set_block_hook(None);
    if hang {
        sched.abandoned.store(true, Ordering::SeqCst);
        POISONED.store(true, Ordering::SeqCst);
        // leak the stuck threads
        for h in handles {
            std::mem::forget(h);
        }
    } else {
        for h in handles {
            let _ = h.join();
        }
    }
    let outs_v: Vec<Vec<CallRes>> = outs.lock().unwrap().iter_mut().map(|o| o.take().map(|t| t.calls).unwrap_or_default()).collect();
    let log = std::mem::take(&mut *ctx.log.lock().unwrap());
    if (hang || std::env::var_os("VH_COOP_LOG").is_some()) && std::env::var_os("VH_COOP_TRACE").is_some() {
        for r in log.iter().rev().take(200).rev() {
            match r {
                Rec::End(e) => eprintln!("    End {:?} tid={} out={:?} calls={:?}", e.key, e.tid, e.out.v, e.calls),
                r => eprintln!("    {r:?}"),
            }
        }
    }
    CoopRun {
        outs: outs_v,
        log,
        hang,
        decisions: decisions.load(Ordering::SeqCst),
        cancel_delivered_at,
        write_done: write_done.load(Ordering::SeqCst),
        alive_at_write_return: alive_at_write_return.lock().unwrap().clone(),
        ticks,
        fault_fired,
        fault_site,
        fault_event,
        fault_tid: 0,
        unstable_finalization,
        early_final,
        proto_viol,
        blocked_tids,
        proto_blocks: proto.blocks,
        proto_transfers: proto.transfers,
        proto_nested: proto.nested_releases,
        proto_failed_in_span: proto.failed_wakes_in_span,
        proto_bad_wakes: proto.wakes_not_completed,
    }
}

fn want_for(prog: &Program, model: &Model, node: u8, arg: u8) -> Result<ROut, LatWant> {
    if prog.lattice {
        match Lat::new(prog, model).solve(node).0 {
            LatWant::Value(v) => Ok(ROut { v, ents: vec![], syms: vec![] }),
            other => Err(other),
        }
    } else {
        let mut ev = Eval::new(prog, model);
        match ev.node(node, arg) {
            Ok(r) => Ok(r.out.clone()),
            Err(_) => Err(LatWant::Either),
        }
    }
}

fn is_cycle_panic(p: &Pan) -> bool {
    let t = p.text();
    t.contains("dependency graph cycle") || t.contains("PropagatedPanic")
}

/// After the parallel part: the coordinating thread requests every key and compares with the
/// reference (`model` = inputs after the write, if any).
fn epilogue(case: &CoopCase, world: &mut World, model: &Model, write_first: bool, out: &mut Vec<Violation>, what: &str) {
    let prog = &case.prog;
    if write_first {
        if let Err(p) = world.synth(D::Low) {
            out.push(viol("unexpected-panic", format!("{what}: synthetic write: {}", p.text())));
        }
    }
    for (n, nd) in prog.nodes.iter().enumerate() {
        for a in 0..nd.nargs {
            world.reset_budget();
            let real = world.get(n as u8, a);
            match (real, want_for(prog, model, n as u8, a)) {
                (Ok(g), Ok(w)) => {
                    if let Err(e) = got_matches(&g, &w) {
                        out.push(viol("value-mismatch", format!("{what}: get({n},{a}): {e}")));
                    }
                }
                (Err(p), Ok(_)) => out.push(viol("unexpected-panic", format!("{what}: get({n},{a}): {}", p.text()))),
                (Ok(g), Err(LatWant::EitherValue(v))) => {
                    if g.v != v {
                        out.push(viol("value-mismatch", format!("{what}: get({n},{a}): value {} != reference {v} (mixed cycle that does not panic)", g.v)));
                    }
                }
                (Ok(g), Err(LatWant::CyclePanic)) => out.push(viol("missing-panic", format!("{what}: get({n},{a}) returned {} but a cycle of functions without recovery is reachable", g.v))),
                (Err(p), Err(LatWant::CyclePanic)) => {
                    if !is_cycle_panic(&p) {
                        out.push(viol("wrong-panic", format!("{what}: get({n},{a}): {} (expected a cycle panic)", p.text())));
                    }
                }
                _ => {}
            }
        }
    }
}

pub fn run_coop_case(which: &str, case: &CoopCase) -> SeqOutcome {
    let mut outc = SeqOutcome { violations: vec![], labels: vec![], steps_run: 0, extra_evals: 0, counters: vec![], ticks: 0, fault_fired: false };
    if poisoned() {
        outc.labels.push("skipped-after-hang");
        return outc;
    }
    let prog = Arc::new(case.prog.clone());
    let model0 = Model::new(&case.prog);
    let mut fault_at = None;
    if let Mode::Fault { site } = case.mode {
        // count the sites under the same schedule first (approximately deterministic)
        let w0 = Arc::new(Mutex::new(World::new(prog.clone(), &model0.vals, model0.cells.clone())));
        let r0 = run_parallel(case, w0, None);
        if r0.hang {
            outc.violations.push(viol("hang", "fault-free run of a C22 case did not terminate".into()));
            return outc;
        }
        if r0.ticks == 0 {
            return outc;
        }
        fault_at = Some(site as u64 % r0.ticks);
        outc.extra_evals += 1;
    }
    let world = Arc::new(Mutex::new(World::new(prog.clone(), &model0.vals, model0.cells.clone())));
    world.lock().unwrap().take_log();
    let run = run_parallel(case, world.clone(), fault_at);
    outc.steps_run = run.decisions as usize;
    let mut v = vec![];
    if run.hang {
        v.push(viol("hang", format!("no runnable thread and no thread reached a yield point within {:?} (decision #{})", GRACE, run.decisions)));
        outc.violations = v;
        return outc;
    }
    v.extend(run.early_final.iter().cloned());
    let mut model = model0.clone();
    if let Mode::Writer { .. } = case.mode {
        if let Some(WOp::Write(Step::Set { slot, field, val, .. })) = case.plans[0].first() {
            if run.write_done {
                model.vals[*slot as usize][*field as usize].0 = *val;
            }
        }
    }
    // per-thread facts from the log
    let mut iterating_before_cancel: BTreeSet<u32> = BTreeSet::new();
    let mut blocked_threads: BTreeSet<u32> = run.blocked_tids.clone();
    for r in &run.log {
        match r {
            Rec::Ev(tid, Ev::WillIterate(..)) => {
                iterating_before_cancel.insert(*tid);
            }
            Rec::Ev(tid, Ev::WillBlockOn { .. }) => {
                blocked_threads.insert(*tid);
            }
            _ => {}
        }
    }
    let prog_r = &case.prog;
    let mut any_cancelled = false;
    let mut cancelled_mid_iteration = false;
    let mut cancelled_while_blocked = false;
    let mut local_cancel_seen = false;
    let mut cycle_panics = 0;
    let mut injected_seen = false;
    let mut propagated_seen = false;
    for (t, calls) in run.outs.iter().enumerate() {
        for c in calls {
            let WOp::Get { node, arg } = &c.op else {
                if let Err(p) = &c.res {
                    v.push(viol("unexpected-panic", format!("writer: {:?}: {}", c.op, p.text())));
                }
                continue;
            };
            let want = want_for(prog_r, &model0, *node, *arg);
            match (&c.res, case.mode) {
                (Err(Pan::Cancelled(k)), Mode::Writer { .. }) if k.contains("PendingWrite") || k.contains("PropagatedPanic") => {
                    any_cancelled = true;
                    if iterating_before_cancel.contains(&(t as u32 + 1)) {
                        cancelled_mid_iteration = true;
                    }
                    if blocked_threads.contains(&(t as u32 + 1)) {
                        cancelled_while_blocked = true;
                    }
                    if k.contains("PropagatedPanic") && !blocked_threads.contains(&(t as u32 + 1)) {
                        v.push(viol("wrong-cancellation", format!("thread {} get({node},{arg}): PropagatedPanic although the thread never waited on another thread", t + 1)));
                    }
                }
                (Err(Pan::Cancelled(k)), Mode::Cancel { target, .. }) if k.contains("Local") => {
                    local_cancel_seen = true;
                    if t as u8 != target {
                        v.push(viol("local-cancellation-leaked", format!("thread {} get({node},{arg}) unwound with Cancelled::Local but the token of thread {} was cancelled", t + 1, target + 1)));
                    } else if run.cancel_delivered_at.map(|d| c.t_end < d).unwrap_or(true) {
                        v.push(viol("spurious-local-cancellation", format!("thread {} get({node},{arg}) unwound with Cancelled::Local before the token was cancelled", t + 1)));
                    }
                }
                (Err(Pan::Injected(..)), Mode::Fault { .. }) => injected_seen = true,
                (Err(Pan::Cancelled(k)), Mode::Fault { .. }) if k.contains("PropagatedPanic") => propagated_seen = true,
                (Err(p), Mode::Fault { .. }) if run.fault_fired && is_cycle_panic(p) && prog_r.lattice => {}
                (Ok(g), _) => match &want {
                    Ok(w) => {
                        if c.started_after_flag && matches!(case.mode, Mode::Writer { .. }) {
                            v.push(viol("call-after-cancellation-flag-returned-value", format!("thread {} get({node},{arg}) started after DidSetCancellationFlag and returned {}", t + 1, g.v)));
                        }
                        if let Err(e) = got_matches(g, w) {
                            v.push(viol("value-mismatch", format!("thread {} get({node},{arg}): {e}", t + 1)));
                        }
                    }
                    Err(LatWant::CyclePanic) => v.push(viol("missing-panic", format!("thread {} get({node},{arg}) returned {} but a cycle of functions without recovery is reachable", t + 1, g.v))),
                    Err(_) => {}
                },
                (Err(p), _) => match &want {
                    Err(LatWant::CyclePanic) => {
                        cycle_panics += 1;
                        if !is_cycle_panic(p) {
                            v.push(viol("wrong-panic", format!("thread {} get({node},{arg}): {} (expected a cycle panic or a propagated panic)", t + 1, p.text())));
                        }
                    }
                    Err(_) => {}
                    Ok(_) => {
                        // a thread waiting on a panicking (cyclic) computation of another thread may see PropagatedPanic
                        let tolerated = (matches!(case.mode, Mode::PlainCycles) || case.plain_cycles) && matches!(p, Pan::Cancelled(k) if k.contains("PropagatedPanic")) && blocked_threads.contains(&(t as u32 + 1));
                        if !tolerated {
                            v.push(viol("unexpected-panic", format!("thread {} get({node},{arg}): {}", t + 1, p.text())));
                        }
                    }
                },
            }
        }
    }
    // Listed finding c14-kf1: a function WITHOUT cycle handling that takes part in a cycle whose
    // head (a function with recovery) is executing on another thread completes with the head's
    // provisional value and hands that value to its top-level caller. Signature: inside the
    // top-level call, this thread completed a plain function that called a function with recovery
    // which, at that moment, had been started by another thread and not yet completed.
    if matches!(case.mode, Mode::PlainCycles) || case.plain_cycles {
        let mut open_by: std::collections::BTreeMap<u8, Vec<u32>> = Default::default();
        let mut escaped: BTreeSet<(u32, u32)> = BTreeSet::new(); // (tid, call index)
        let mut cur_call: std::collections::BTreeMap<u32, u32> = Default::default();
        for r in &run.log {
            match r {
                Rec::CallBegin(t, ix) => {
                    cur_call.insert(*t, *ix);
                }
                Rec::CallEnd(t, _) => {
                    cur_call.remove(t);
                }
                Rec::Start(LKey::Node(n, _), t) => open_by.entry(*n).or_default().push(*t),
                Rec::End(rec) => {
                    if let LKey::Node(n, _) = rec.key {
                        if let Some(v) = open_by.get_mut(&n) {
                            if let Some(p) = v.iter().rposition(|x| *x == rec.tid) {
                                v.remove(p);
                            }
                        }
                        if matches!(prog_r.nodes[n as usize].kind, Kind::Plain | Kind::NoEq) {
                            for c in &rec.calls {
                                if let LKey::Node(h, _) = c {
                                    let recovering = matches!(prog_r.nodes[*h as usize].kind, Kind::Fix | Kind::FixJoin | Kind::Fall | Kind::Div);
                                    let open_elsewhere = open_by.get(h).map(|v| v.iter().any(|t| *t != rec.tid)).unwrap_or(false);
                                    if recovering && open_elsewhere {
                                        if let Some(ix) = cur_call.get(&rec.tid) {
                                            escaped.insert((rec.tid, *ix));
                                        }
                                    }
                                }
                            }
                        }
                    }
                }
                _ => {}
            }
        }
        if !escaped.is_empty() {
            outc.labels.push("kf-c14-provisional-escaped");
            for x in v.iter_mut() {
                if matches!(x.rule.as_str(), "missing-panic" | "value-mismatch" | "unexpected-panic" | "wrong-panic") {
                    x.rule = KF_C14_PROVISIONAL.to_string();
                }
            }
        }
    }
    // property-specific clauses
    match case.mode {
        Mode::Writer { .. } => {
            if !run.write_done {
                v.push(viol("writer-did-not-complete", "the writer's mutation never returned".into()));
            }
            if run.alive_at_write_return.iter().any(|a| *a) {
                v.push(viol("write-proceeded-with-live-clone", format!("the mutation returned while readers {:?} still held their handles", run.alive_at_write_return)));
            }
        }
        Mode::Cancel { target, .. } => {
            // (i) if, after the delivery, the target made a tracked-function request inside the
            // call that was in progress at delivery (or, if it was between calls, inside its next
            // call) while no cycle-capable function was executing on its stack, that call must
            // have unwound with Cancelled::Local
            let tt = target as u32 + 1;
            let mut delivered = false;
            let mut in_call: Option<u32> = None;
            let mut armed_call: Option<u32> = None;
            let mut armed_pending = false;
            let mut stack: Vec<u8> = vec![];
            let mut must_cancel: Option<u32> = None;
            for r in &run.log {
                match r {
                    Rec::CallBegin(t, ix) if *t == tt => {
                        in_call = Some(*ix);
                        stack.clear();
                        if armed_pending {
                            armed_call = Some(*ix);
                            armed_pending = false;
                        }
                    }
                    Rec::CallEnd(t, ix) if *t == tt => {
                        in_call = None;
                        if armed_call == Some(*ix) {
                            armed_call = None; // the token is reset when the outermost call ends
                        }
                    }
                    Rec::CancelDelivered(t) if *t == tt => {
                        delivered = true;
                        match in_call {
                            Some(ix) => armed_call = Some(ix),
                            None => armed_pending = true,
                        }
                    }
                    Rec::Start(LKey::Node(n, _), t) if *t == tt => stack.push(*n),
                    Rec::End(rec) if rec.tid == tt => {
                        if let LKey::Node(n, _) = rec.key {
                            if let Some(p) = stack.iter().rposition(|x| *x == n) {
                                stack.truncate(p);
                            }
                        }
                    }
                    Rec::CheckCancel(t) if *t == tt && delivered && must_cancel.is_none() => {
                        let in_fixpoint = stack.iter().any(|n| matches!(prog_r.nodes[*n as usize].kind, Kind::Fix | Kind::FixJoin | Kind::Fall | Kind::Div));
                        if let (Some(ix), false) = (armed_call, in_fixpoint) {
                            if in_call == Some(ix) {
                                must_cancel = Some(ix);
                            }
                        }
                    }
                    _ => {}
                }
            }
            if let Some(ix) = must_cancel {
                let got_local = run.outs[target as usize].get(ix as usize).map(|c| matches!(&c.res, Err(Pan::Cancelled(k)) if k.contains("Local"))).unwrap_or(false);
                if !got_local {
                    v.push(viol(
                        "local-cancellation-ignored",
                        format!("thread {tt} made a tracked-function request outside fixpoint iteration in call #{ix} after its token was cancelled, but the call ended with {:?}", run.outs[target as usize].get(ix as usize).map(|c| c.res.as_ref().map(|g| g.v).map_err(|p| p.text()))),
                    ));
                }
            }
        }
        Mode::Fault { .. } => {
            if run.fault_fired && !injected_seen {
                v.push(viol("fault-swallowed", "the injected panic fired but no request ended with it".into()));
            }
        }
        Mode::PlainCycles => {}
    }
    // epilogue on the coordinating thread: every key against the reference for the final inputs
    {
        let mut w = world.lock().unwrap();
        w.take_log();
        let after_fault = matches!(case.mode, Mode::Fault { .. });
        let before = v.len();
        epilogue(case, &mut w, &model, after_fault, &mut v, "after the parallel phase");
        if run.unstable_finalization && matches!(case.mode, Mode::Writer { .. }) {
            for x in v[before..].iter_mut() {
                if x.rule == "value-mismatch" {
                    x.rule = crate::props::cyc::KF_STALE_DEPS.to_string();
                }
            }
        }
    }
    if which == "C14" {
        // break every cycle by a write (all inputs to the value that disables most `If` edges is
        // not computable in general; instead just verify recovery after a synthetic write)
        let mut w = world.lock().unwrap();
        epilogue(case, &mut w, &model, true, &mut v, "after a new revision");
    }
    let nt = match case.mode {
        Mode::Writer { .. } => any_cancelled && (cancelled_mid_iteration || cancelled_while_blocked),
        Mode::Cancel { .. } => local_cancel_seen && !blocked_threads.is_empty(),
        Mode::PlainCycles => cycle_panics > 0 && !blocked_threads.is_empty(),
        Mode::Fault { .. } => run.fault_fired && propagated_seen,
    };
    if nt {
        outc.labels.push("nontrivial");
    }
    if any_cancelled {
        outc.labels.push("reader-cancelled-by-write");
    }
    if cancelled_mid_iteration {
        outc.labels.push("cancelled-during-fixpoint");
    }
    if cancelled_while_blocked {
        outc.labels.push("cancelled-while-blocked");
    }
    if local_cancel_seen {
        outc.labels.push("local-cancel-unwound");
    }
    if !blocked_threads.is_empty() {
        outc.labels.push("some-thread-blocked");
    }
    if cycle_panics > 0 {
        outc.labels.push("cycle-panic");
    }
    if run.fault_fired {
        outc.labels.push("fault-fired");
    }
    if propagated_seen {
        outc.labels.push("waiter-released-with-propagated-panic");
    }
    if case.prog.lattice {
        outc.labels.push("cyclic-program");
    }
    outc.counters.push(("scheduling_decisions", run.decisions));
    outc.counters.push(("protocol_blocks", run.proto_blocks));
    outc.counters.push(("protocol_transfers", run.proto_transfers));
    outc.counters.push(("protocol_nested_handover_releases", run.proto_nested));
    outc.counters.push(("protocol_failed_wakes_while_owner_in_cycle_span", run.proto_failed_in_span));
    outc.counters.push(("protocol_wakes_not_completed", run.proto_bad_wakes));
    if run.proto_bad_wakes > 0 {
        outc.labels.push("wake-with-panic-or-cancel");
    }
    // listed findings of the single-handle fault engine apply here as well
    if let Mode::Fault { .. } = case.mode {
        if run.fault_fired {
            let during_discard = run.fault_site == fault::Site::Callback && run.fault_event != 0;
            for x in v.iter_mut() {
                if during_discard && !x.rule.starts_with("kf:") && x.rule != "hang" {
                    x.rule = crate::faulty::KF_DISCARD_CALLBACK.to_string();
                } else if run.fault_site == fault::Site::FieldHash && x.detail.contains("interned value in LRU so must be in key_map") {
                    x.rule = crate::faulty::KF_HASH_REHASH.to_string();
                }
            }
        }
    }
    if outc.labels.contains(&"kf-c14-provisional-escaped") {
        for x in v.iter_mut() {
            if matches!(x.rule.as_str(), "missing-panic" | "value-mismatch" | "unexpected-panic" | "wrong-panic") {
                x.rule = KF_C14_PROVISIONAL.to_string();
            }
        }
    }
    // listed finding cyc-kf5 (provisional member of a vanished cycle accepted as final)
    if case.prog.lattice {
        let km = world.lock().unwrap().ctx.keymap.lock().unwrap().clone();
        let node_of = |id: u64| km.get(&id).map(|x| x.0);
        if crate::props::cyc::abandoned_member_signature(&run.log, &node_of) {
            outc.labels.push("kf-provisional-member-of-vanished-cycle");
            for x in v.iter_mut() {
                if x.rule == "value-mismatch" {
                    x.rule = crate::props::cyc::KF_ABANDONED.to_string();
                }
            }
        }
    }
    if which == "C19" {
        // C19 owns only the protocol-trace rules; "non-trivial" = a wake-up whose result is not `completed`
        v.retain(|x| x.rule == "hang");
        v.extend(run.proto_viol.iter().cloned());
        outc.labels.retain(|l| *l != "nontrivial");
        if run.proto_bad_wakes > 0 && run.proto_blocks > 0 {
            outc.labels.push("nontrivial");
        }
    }
    outc.violations = v;
    outc
}

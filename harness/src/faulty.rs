//! `fault` engine (C22, single handle): enumerate every user-code site salsa reaches while a
//! history runs, re-run the history once per site with a panic injected exactly there, and check
//! that the panic reaches the caller, that nothing is returned from the interrupted step, and
//! that — with the fault gone — every later request equals the reference and a fresh database.

use crate::fault::{self, Site};
use crate::prog::*;
use crate::props::PropSpec;
use crate::seq::*;

pub const MAX_SITES_PER_CASE: u64 = 400;

/// Listed finding: a panic raised by the event callback while it is told about a stale output
/// (`WillDiscardStaleOutput` / `DidDiscard` / `DidDiscardAccumulated`) interrupts the deletion of
/// the remaining stale outputs; the creator's old memo is kept and still lists the outputs that
/// were already freed, so the retry re-uses a freed slot and then "deletes" it again.
pub const KF_HASH_REHASH: &str = "kf:c22-interned-hash-panic-loses-key-map-entries";
pub const KF_DISCARD_CALLBACK: &str = "kf:c22-callback-panic-during-stale-output-deletion";

pub fn run_fault_case(spec: &PropSpec, case: &Case) -> SeqOutcome {
    // epilogue: a new revision, then every key against the reference and a fresh database
    let mut c2 = case.clone();
    c2.hist.push(Step::Synth { dur: D::Low });
    c2.hist.push(Step::Fresh);

    let mut oracles = (spec.make)();
    let base = run_seq(&c2, &mut oracles, &SeqOpts { stop_early: false, fault: Some(None) });
    let site_counts = fault::site_counts();
    let n = base.ticks;
    let mut labels: Vec<&'static str> = vec![];
    let mut out = SeqOutcome { violations: vec![], labels: vec![], steps_run: base.steps_run, extra_evals: 0, counters: vec![], ticks: n, fault_fired: false };
    if !base.violations.is_empty() {
        // the history misbehaves without any fault: not this property's business (the value
        // properties own it); counted and skipped so the fault search is not blocked by it
        out.labels = vec!["skipped-baseline-violation"];
        out.counters.push(("skipped_baseline_violation", 1));
        return out;
    }
    let stride = if n > MAX_SITES_PER_CASE { n.div_ceil(MAX_SITES_PER_CASE) } else { 1 };
    let mut hit = [0u64; 8];
    let mut k = 0;
    while k < n {
        let mut oracles = (spec.make)();
        let r = run_seq(&c2, &mut oracles, &SeqOpts { stop_early: true, fault: Some(Some(k)) });
        out.extra_evals += 1;
        out.steps_run += r.steps_run;
        if !r.fault_fired {
            out.violations.push(Violation {
                rule: "HARNESS-nondeterministic-sites".into(),
                step: 0,
                detail: format!("site {k} of {n} was not reached in the armed run"),
            });
            break;
        }
        let site = fault::last_site();
        hit[site as usize] += 1;
        if !r.violations.is_empty() {
            // listed finding c22-kf1: the event callback panicked while stale outputs were being
            // discarded (half of them already freed, the old memo still lists all of them)
            let during_discard = site == Site::Callback && fault::fired_event() != 0;
            for mut v in r.violations {
                if during_discard && !v.rule.starts_with("kf:") && !v.rule.starts_with("HARNESS") {
                    v.rule = KF_DISCARD_CALLBACK.to_string();
                }
                // listed finding c22-kf2: user `Hash` panicked while the interner's key map was
                // growing; hashbrown drops the entries it could not rehash, the values stay on the
                // LRU list, and a later slot reuse fails to find them in the key map
                if site == Site::FieldHash && v.detail.contains("interned value in LRU so must be in key_map") {
                    v.rule = KF_HASH_REHASH.to_string();
                }
                v.detail = format!("[panic injected at user-code site #{k} ({site:?})] {}", v.detail);
                out.violations.push(v);
            }
            break;
        }
        k += stride;
    }
    let other = hit[Site::OutEq as usize] + hit[Site::FieldEq as usize] + hit[Site::FieldHash as usize] + hit[Site::CycleFn as usize] + hit[Site::CycleInitial as usize];
    if other > 0 {
        labels.push("nontrivial");
    }
    if hit[Site::OutEq as usize] > 0 {
        labels.push("fault-in-output-eq");
    }
    if hit[Site::FieldEq as usize] + hit[Site::FieldHash as usize] > 0 {
        labels.push("fault-in-field-eq-hash");
    }
    if hit[Site::CycleFn as usize] + hit[Site::CycleInitial as usize] > 0 {
        labels.push("fault-in-cycle-fn");
    }
    if hit[Site::Callback as usize] > 0 {
        labels.push("fault-in-event-callback");
    }
    if stride > 1 {
        labels.push("sites-sampled");
    }
    labels.extend(base.labels.iter().filter(|l| **l != "nontrivial"));
    out.labels = labels;
    out.counters.push(("sites_total", n));
    out.counters.push(("faults_body", hit[Site::BodyStart as usize] + hit[Site::Op as usize]));
    out.counters.push(("faults_output_eq", hit[Site::OutEq as usize]));
    out.counters.push(("faults_field_eq_hash", hit[Site::FieldEq as usize] + hit[Site::FieldHash as usize]));
    out.counters.push(("faults_cycle_fn", hit[Site::CycleFn as usize] + hit[Site::CycleInitial as usize]));
    out.counters.push(("faults_callback", hit[Site::Callback as usize]));
    let _ = site_counts;
    out
}

//! Generic proptest-driven loop shared by the engines whose case type is not `prog::Case`
//! (shuttle, coop): generate tapes, decode, run, classify, shrink, write a replay file.

use std::collections::{BTreeMap, BTreeSet};
use std::panic::{AssertUnwindSafe, catch_unwind};

use proptest::prelude::*;
use proptest::test_runner::{Config, RngAlgorithm, RngSeed, TestCaseError, TestError, TestRunner};
use serde::Serialize;
use serde::de::DeserializeOwned;

use crate::drive::Summary;
use crate::seq::{SeqOutcome, Violation};

pub struct GSpec<'a, C> {
    pub property: &'a str,
    pub engine: &'a str,
    pub config: &'a str,
    pub tape_len: usize,
    pub max_shrink_iters: u32,
    pub decode: &'a dyn Fn(&[u32]) -> C,
    pub run: &'a dyn Fn(&C) -> SeqOutcome,
    /// structural size used to pick small/median/large samples
    pub size: &'a dyn Fn(&C) -> usize,
}

#[derive(Clone, Debug, Serialize, serde::Deserialize)]
pub struct GReplay<C> {
    pub property: String,
    pub engine: String,
    pub config: String,
    pub seed: u64,
    pub tape: Vec<u32>,
    pub gcase: C,
    pub violations: Vec<Violation>,
    #[serde(default)]
    pub ncpu: u32,
}

fn hash_of<C: Serialize>(c: &C) -> u64 {
    crate::tape::fnv1a(&serde_json::to_vec(c).unwrap())
}

fn run_guarded<C>(spec: &GSpec<C>, c: &C) -> Result<SeqOutcome, String> {
    catch_unwind(AssertUnwindSafe(|| (spec.run)(c))).map_err(|p| format!("harness panic: {}", crate::world::classify_panic(p).text()))
}

pub fn gdrive<C: Serialize + DeserializeOwned + Clone>(spec: &GSpec<C>, cases: u32, seed: u64, replay_dir: &str, known: &[String]) -> Summary {
    let t0 = std::time::Instant::now();
    let mut sum = Summary { property: spec.property.into(), engine: spec.engine.into(), seed, ..Default::default() };
    let cfg = Config {
        cases,
        failure_persistence: None,
        rng_algorithm: RngAlgorithm::ChaCha,
        rng_seed: RngSeed::Fixed(seed),
        max_shrink_iters: spec.max_shrink_iters,
        max_global_rejects: 0,
        ..Config::default()
    };
    let mut runner = TestRunner::new(cfg);
    let lo = (spec.tape_len / 4).max(1);
    let strat = proptest::collection::vec(any::<u32>(), lo..=spec.tape_len);

    #[derive(Default)]
    struct St {
        nontrivial: BTreeSet<u64>,
        labels: BTreeMap<String, u64>,
        samples: Vec<(usize, serde_json::Value)>,
        failed_rule: Option<String>,
        harness_error: Option<String>,
        ncases: u64,
        nsteps: u64,
        excluded_known: u64,
        known_counts: BTreeMap<String, u64>,
        extra_evals: u64,
        counters: BTreeMap<String, u64>,
        first_fail: Option<(Vec<u32>, Vec<Violation>)>,
    }
    let st = std::cell::RefCell::new(St::default());

    let result = runner.run(&strat, |tape| {
        let case = (spec.decode)(&tape);
        let mut st = st.borrow_mut();
        let st = &mut *st;
        let mut out = match run_guarded(spec, &case) {
            Ok(o) => o,
            Err(e) => {
                if st.harness_error.is_none() {
                    st.harness_error = Some(e.clone());
                }
                return Err(TestCaseError::fail(format!("HARNESS: {e}")));
            }
        };
        if !known.is_empty() {
            let before = out.violations.len();
            let mut hit = vec![];
            out.violations.retain(|v| {
                if known.iter().any(|k| k == &v.rule) {
                    hit.push(v.rule.clone());
                    false
                } else {
                    true
                }
            });
            if st.failed_rule.is_none() && before != out.violations.len() {
                st.excluded_known += 1;
                for h in hit {
                    *st.known_counts.entry(h).or_default() += 1;
                }
            }
        }
        if let Some(rule) = &st.failed_rule {
            if out.violations.iter().any(|v| &v.rule == rule) {
                return Err(TestCaseError::fail(rule.clone()));
            }
            return Ok(());
        }
        st.ncases += 1;
        st.nsteps += out.steps_run as u64;
        st.extra_evals += out.extra_evals;
        for (k, v) in &out.counters {
            *st.counters.entry(k.to_string()).or_default() += v;
        }
        for l in &out.labels {
            *st.labels.entry(l.to_string()).or_default() += 1;
        }
        if out.labels.contains(&"nontrivial") {
            let h = hash_of(&case);
            if st.nontrivial.insert(h) && (st.samples.len() < 3 || st.ncases % 97 == 0) {
                st.samples.push(((spec.size)(&case), serde_json::to_value(&case).unwrap()));
                if st.samples.len() > 12 {
                    st.samples.sort_by_key(|s| s.0);
                    let mid = st.samples.len() / 2;
                    st.samples = vec![st.samples[0].clone(), st.samples[mid].clone(), st.samples[st.samples.len() - 1].clone()];
                }
            }
        }
        if let Some(v) = out.violations.first() {
            st.failed_rule = Some(v.rule.clone());
            st.first_fail = Some((tape.clone(), out.violations.clone()));
            return Err(TestCaseError::fail(v.rule.clone()));
        }
        Ok(())
    });

    let St { nontrivial, labels, mut samples, harness_error, ncases, nsteps, excluded_known, known_counts, extra_evals, counters, first_fail, .. } = st.into_inner();
    sum.extra.insert("excluded_known".into(), excluded_known);
    if extra_evals > 0 {
        sum.extra.insert("extra_evaluations".into(), extra_evals);
    }
    for (k, v) in counters {
        sum.extra.insert(k, v);
    }
    for (k, v) in known_counts {
        sum.extra.insert(format!("known:{k}"), v);
    }
    sum.cases = ncases;
    sum.steps = nsteps;
    sum.nontrivial_hashes = nontrivial.into_iter().collect();
    sum.labels = labels;
    samples.sort_by_key(|s| s.0);
    if samples.len() > 3 {
        let mid = samples.len() / 2;
        samples = vec![samples[0].clone(), samples[mid].clone(), samples[samples.len() - 1].clone()];
    }
    sum.samples = samples.into_iter().map(|s| s.1).collect();
    sum.harness_error = harness_error;

    if let Err(TestError::Fail(_, tape)) = result {
        let mut tape = tape;
        let mut case = (spec.decode)(&tape);
        let mut rerun = run_guarded(spec, &case);
        if let Ok(out) = &mut rerun {
            out.violations.retain(|v| !known.contains(&v.rule));
            // the shrunk case does not fail any more (engines that stop exploring after a fatal
            // failure, or a schedule-dependent failure): fall back to the first failing case
            if out.violations.is_empty() {
                if let Some((t0, v0)) = first_fail {
                    tape = t0;
                    case = (spec.decode)(&tape);
                    out.violations = v0;
                }
            }
        }
        match rerun {
            Ok(out) => {
                sum.violations = out.violations.clone();
                let rp = GReplay { property: spec.property.into(), engine: spec.engine.into(), config: spec.config.into(), seed, tape: tape.clone(), gcase: case.clone(), violations: out.violations, ncpu: crate::drive::ncpu() };
                let _ = std::fs::create_dir_all(replay_dir);
                let path = format!("{replay_dir}/{}-{}-seed{}-{:016x}.json", spec.property, spec.engine, seed, hash_of(&case));
                std::fs::write(&path, serde_json::to_string_pretty(&rp).unwrap()).ok();
                sum.replay = Some(path);
            }
            Err(e) => sum.harness_error = Some(e),
        }
    } else if let Err(TestError::Abort(r)) = result {
        sum.harness_error = Some(format!("proptest aborted: {r}"));
    }
    sum.wall_s = t0.elapsed().as_secs_f64();
    sum
}

/// Strict replay of a saved case.
pub fn greplay<C: Serialize + DeserializeOwned + Clone>(path: &str, run: &dyn Fn(&C) -> SeqOutcome) -> Result<Vec<Violation>, String> {
    let rp: GReplay<C> = serde_json::from_str(&std::fs::read_to_string(path).map_err(|e| e.to_string())?).map_err(|e| e.to_string())?;
    Ok(run(&rp.gcase).violations)
}

//! Reference semantics for lattice (cyclic) programs: input-determined call graph, SCC analysis,
//! Kleene iteration from bottom, fallback pinning, divergence detection. Salsa-free.

use std::collections::BTreeSet;

use crate::prog::*;
use crate::refm::Model;

pub const FALLBACK_BASE: u32 = 0x100;

#[derive(Clone, Debug, PartialEq, Eq)]
pub enum LatWant {
    Value(u32),
    /// a cycle made only of functions without cycle handling is reachable
    CyclePanic,
    /// a cycle mixes functions with and without recovery: panic or value, but must terminate
    Either,
    /// a reachable cycle contains functions without cycle handling next to fixpoint functions
    /// (and nothing else is uncertain): a cycle panic, or else the least fixpoint
    EitherValue(u32),
    /// fixpoint iteration cannot converge
    Diverge,
}

pub struct Lat<'a> {
    pub prog: &'a Program,
    pub m: &'a Model,
}

#[derive(Clone, Copy, Debug, PartialEq, Eq)]
enum E {
    Plain,
    Mask(u32),
    Shift,
    Inc(u32),
    Not,
}

impl<'a> Lat<'a> {
    pub fn new(prog: &'a Program, m: &'a Model) -> Self {
        Lat { prog, m }
    }

    /// executed ops of a node under the current inputs, flattened: (read bits, calls)
    fn flat(&self, ops: &[Op], reads: &mut u32, calls: &mut Vec<(u8, E)>) {
        for op in ops {
            match op {
                Op::Read { slot, field } => {
                    *reads |= 1 << (self.m.val(*slot, *field) % VMOD);
                    calls.push((u8::MAX, E::Plain)); // marker: a read happened here
                }
                Op::Call { node, .. } => calls.push((*node, E::Plain)),
                Op::CallMask { node, slot, field, .. } => calls.push((*node, E::Mask(MASKS[(self.m.val(*slot, *field) % VMOD) as usize]))),
                Op::CallShift { node, .. } => calls.push((*node, E::Shift)),
                Op::CallSat { node, mask, .. } => calls.push((*node, E::Mask(*mask))),
                Op::CallMax { node, .. } => calls.push((*node, E::Plain)),
                Op::CallInc { node, slot, field, .. } => calls.push((*node, E::Inc(self.m.val(*slot, *field) % VMOD))),
                Op::CallNot { node, .. } => calls.push((*node, E::Not)),
                Op::If { slot, field, thr, then, els } => {
                    if self.m.val(*slot, *field) >= *thr {
                        self.flat(then, reads, calls)
                    } else {
                        self.flat(els, reads, calls)
                    }
                }
                _ => {}
            }
        }
    }

    pub fn callees(&self, n: u8) -> Vec<u8> {
        let (mut r, mut c) = (0, vec![]);
        self.flat(&self.prog.nodes[n as usize].body, &mut r, &mut c);
        c.into_iter().map(|x| x.0).filter(|x| *x != u8::MAX).collect()
    }

    fn body(&self, n: u8, vals: &[u32]) -> u32 {
        let mut acc = 0u32;
        // ops are applied in order; reads and calls all join into acc except Inc (max) and Not
        self.eval_ops(&self.prog.nodes[n as usize].body, vals, &mut acc);
        acc
    }

    fn eval_ops(&self, ops: &[Op], vals: &[u32], acc: &mut u32) {
        if self.prog.maxplus {
            for op in ops {
                match op {
                    Op::Read { slot, field } => *acc = (*acc).max(self.m.val(*slot, *field) % VMOD),
                    Op::Call { node, .. } => *acc = (*acc).max(vals[*node as usize]),
                    Op::CallMax { node, add, guard, .. } => {
                        if *acc < MAXCAP && *acc >= *guard {
                            *acc = (*acc).max((vals[*node as usize] + *add).min(MAXCAP));
                        }
                    }
                    Op::UntrackedBelow { cell, below } => {
                        if *acc < *below {
                            *acc = (*acc).max((self.m.cells[*cell as usize] % VMOD).min(*below));
                        }
                    }
                    _ => {}
                }
            }
            return;
        }
        for op in ops {
            match op {
                Op::Read { slot, field } => *acc |= 1 << (self.m.val(*slot, *field) % VMOD),
                Op::Call { node, .. } => *acc |= vals[*node as usize],
                Op::CallMask { node, slot, field, .. } => *acc |= vals[*node as usize] & MASKS[(self.m.val(*slot, *field) % VMOD) as usize],
                Op::CallShift { node, .. } => *acc |= (vals[*node as usize] << 1) & 0xFF,
                Op::CallSat { node, mask, .. } => *acc |= vals[*node as usize] & *mask,
                Op::CallInc { node, slot, field, .. } => {
                    let cap = self.m.val(*slot, *field) % VMOD;
                    let nv = vals[*node as usize].saturating_add(1);
                    let nv = if cap == 3 { nv } else { nv.min(cap) };
                    *acc = (*acc).max(nv);
                }
                Op::CallNot { node, .. } => *acc = (!vals[*node as usize]) & 1,
                Op::If { slot, field, thr, then, els } => {
                    if self.m.val(*slot, *field) >= *thr {
                        self.eval_ops(then, vals, acc)
                    } else {
                        self.eval_ops(els, vals, acc)
                    }
                }
                _ => {}
            }
        }
    }

    pub fn reach(&self, from: u8) -> BTreeSet<u8> {
        let mut seen = BTreeSet::new();
        let mut st = vec![from];
        while let Some(n) = st.pop() {
            if seen.insert(n) {
                st.extend(self.callees(n));
            }
        }
        seen
    }

    /// strongly connected components (as sets); only non-trivial ones (size > 1 or self loop)
    pub fn cycles(&self) -> Vec<BTreeSet<u8>> {
        let n = self.prog.nodes.len();
        let adj: Vec<Vec<u8>> = (0..n).map(|i| self.callees(i as u8)).collect();
        // reachability closure (n <= 16)
        let mut reach = vec![vec![false; n]; n];
        for i in 0..n {
            for &j in &adj[i] {
                reach[i][j as usize] = true;
            }
        }
        for k in 0..n {
            for i in 0..n {
                if reach[i][k] {
                    for j in 0..n {
                        if reach[k][j] {
                            reach[i][j] = true;
                        }
                    }
                }
            }
        }
        let mut out: Vec<BTreeSet<u8>> = vec![];
        let mut done = vec![false; n];
        for i in 0..n {
            if done[i] || !reach[i][i] {
                continue;
            }
            let mut s = BTreeSet::new();
            for j in 0..n {
                if reach[i][j] && reach[j][i] {
                    s.insert(j as u8);
                    done[j] = true;
                }
            }
            out.push(s);
        }
        out
    }

    pub fn cyclic_nodes(&self) -> BTreeSet<u8> {
        self.cycles().into_iter().flatten().collect()
    }

    /// all node values under the current inputs, or the reason there is none
    pub fn solve(&self, from: u8) -> (LatWant, Vec<u32>) {
        let n = self.prog.nodes.len();
        let reach = self.reach(from);
        let cycles = self.cycles();
        let kind = |i: u8| self.prog.nodes[i as usize].kind;
        let mut pinned: Vec<Option<u32>> = vec![None; n];
        let mut either = false;
        let mut either_plain = false;
        for c in &cycles {
            if !c.iter().any(|x| reach.contains(x)) {
                continue;
            }
            let plain = c.iter().filter(|x| kind(**x) == Kind::Plain || kind(**x) == Kind::NoEq).count();
            if plain == c.len() {
                return (LatWant::CyclePanic, vec![]);
            }
            if plain > 0 {
                either_plain = true;
            }
            let falls = c.iter().filter(|x| kind(**x) == Kind::Fall).count();
            if falls == c.len() {
                for x in c {
                    pinned[*x as usize] = Some(FALLBACK_BASE + *x as u32);
                }
            } else if falls > 0 {
                either = true;
            }
            let kinds: BTreeSet<Kind> = c.iter().map(|x| kind(*x)).collect();
            if kinds.contains(&Kind::Div) && kinds.len() > 1 {
                either = true;
            }
        }
        if either {
            return (LatWant::Either, vec![]);
        }
        // a reachable executed oscillator never converges
        for &r in &reach {
            let (mut rd, mut c) = (0, vec![]);
            self.flat(&self.prog.nodes[r as usize].body, &mut rd, &mut c);
            if let Some(pos) = c.iter().position(|(_, e)| *e == E::Not) {
                // exact only when the oscillator is the last executed op of the body
                if pos + 1 == c.len() && c[pos].0 == r {
                    return (LatWant::Diverge, vec![]);
                }
                return (LatWant::Either, vec![]);
            }
        }
        // Kleene iteration from bottom over the reachable nodes
        let mut vals = vec![0u32; n];
        for (i, p) in pinned.iter().enumerate() {
            if let Some(v) = p {
                vals[i] = *v;
            }
        }
        for _round in 0..(64 + 8 * n) {
            let mut next = vals.clone();
            for &i in &reach {
                if pinned[i as usize].is_none() {
                    next[i as usize] = self.body(i, &vals);
                }
            }
            if next == vals {
                if either_plain {
                    return (LatWant::EitherValue(vals[from as usize]), vals);
                }
                return (LatWant::Value(vals[from as usize]), vals);
            }
            vals = next;
        }
        if either_plain {
            return (LatWant::Either, vec![]);
        }
        (LatWant::Diverge, vec![])
    }
}

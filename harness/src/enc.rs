//! `enc` engine (C25): stored dependency edges round-trip exactly.
//!
//! Edge sequences are built into salsa's real `OriginAndExtra` through the guarded hook
//! `salsa::verif_hooks::edges`, decoded again and compared with the plain data they were built
//! from. Two generators: exhaustive enumeration of every sequence of length <= 2 over the
//! boundary classes, and tape-driven random sequences up to length 64 (proptest; shrinkable).

use std::collections::{BTreeMap, BTreeSet};

use proptest::prelude::*;
use proptest::test_runner::{Config, RngAlgorithm, RngSeed, TestCaseError, TestError, TestRunner};
use salsa::verif_hooks::edges::{Decoded, Edge, Extra, Kind, Origin};
use serde::{Deserialize, Serialize};

use crate::drive::Summary;
use crate::seq::Violation;
use crate::tape::{Tape, fnv1a};

pub const ING: [u32; 7] = [0, 1, 0xFFE, 0xFFF, 0x1000, 0x7FFF_FFFE, 0x7FFF_FFFF];
pub const IDX_MAX: u32 = u32::MAX - 0xFF; // Id::MAX_U32 (exclusive)
pub const IDX: [u32; 7] = [0, 1, 127, 128, 1 << 20, IDX_MAX - 2, IDX_MAX - 1];
pub const GENS: [u32; 6] = [0, 1, 0xFFFFE, 0xFFFFF, 0x100000, u32::MAX];

#[derive(Clone, Debug, PartialEq, Eq, Serialize, Deserialize)]
pub struct PEdge {
    pub output: bool,
    pub ingredient: u32,
    pub index: u32,
    pub generation: u32,
}

impl PEdge {
    fn e(&self) -> Edge {
        Edge { output: self.output, ingredient: self.ingredient, index: self.index, generation: self.generation }
    }
    fn packable(&self) -> bool {
        !self.output && self.ingredient <= 0xFFF && self.generation <= 0xFFFFF
    }
    fn on_limit(&self) -> bool {
        matches!(self.ingredient, 0xFFF | 0x1000 | 0x7FFF_FFFF) || matches!(self.generation, 0xFFFFF | 0x100000 | u32::MAX) || self.index >= IDX_MAX - 2
    }
}

#[derive(Clone, Debug, PartialEq, Eq, Serialize, Deserialize)]
pub struct PExtra {
    pub tracked: Vec<(u32, u64, u32, PEdge)>,
    pub heads: Vec<(PEdge, u8)>,
    pub iteration: u8,
    pub converged: bool,
}

impl PExtra {
    fn x(&self) -> Extra {
        Extra {
            tracked_struct_ids: self.tracked.iter().map(|(a, b, c, d)| (*a, *b, *c, d.e())).collect(),
            cycle_heads: self.heads.iter().map(|(h, i)| (h.e(), *i)).collect(),
            iteration: self.iteration,
            cycle_converged: self.converged,
        }
    }
}

#[derive(Clone, Debug, PartialEq, Eq, Serialize, Deserialize)]
pub struct EncCase {
    /// 0 Derived, 1 DerivedUntracked, 2 Assigned (key = first edge, as an input edge)
    pub kind: u8,
    pub edges: Vec<PEdge>,
    pub extra: Option<PExtra>,
}

impl EncCase {
    pub fn hash(&self) -> u64 {
        fnv1a(&serde_json::to_vec(self).unwrap())
    }
    fn kind(&self) -> Kind {
        match self.kind {
            0 => Kind::Derived,
            1 => Kind::DerivedUntracked,
            _ => Kind::Assigned,
        }
    }
    /// non-trivial: mixes packable and non-packable edges, or some edge sits exactly on a limit
    pub fn nontrivial(&self) -> bool {
        let p = self.edges.iter().filter(|e| e.packable()).count();
        (p > 0 && p < self.edges.len()) || self.edges.iter().any(|e| e.on_limit())
    }
}

fn v(rule: &str, detail: String) -> Violation {
    Violation { rule: rule.into(), step: 0, detail }
}

fn expect_edges(c: &EncCase) -> Vec<Edge> {
    if c.kind == 2 {
        let mut k = c.edges[0].e();
        k.output = false;
        vec![k]
    } else {
        c.edges.iter().map(|e| e.e()).collect()
    }
}

fn check_decoded(c: &EncCase, d: &Decoded, want_extra: &Option<Extra>, what: &str, out: &mut Vec<Violation>, persisted: bool) {
    let want = expect_edges(c);
    if d.kind != c.kind() {
        out.push(v("origin-kind-changed", format!("{what}: kind {:?} != {:?}", d.kind, c.kind())));
    }
    if d.edges != want {
        let pos = d.edges.iter().zip(&want).position(|(a, b)| a != b).unwrap_or(d.edges.len().min(want.len()));
        out.push(v(
            "edges-differ",
            format!("{what}: {} edges decoded, {} built; first difference at #{pos}: decoded {:?} built {:?}", d.edges.len(), want.len(), d.edges.get(pos), want.get(pos)),
        ));
    }
    if c.kind != 2 {
        let ins: Vec<Edge> = want.iter().copied().filter(|e| !e.output).collect();
        let outs: Vec<Edge> = want.iter().copied().filter(|e| e.output).collect();
        if d.inputs != ins {
            out.push(v("inputs-view-differs", format!("{what}: inputs() yields {} edges, expected {}", d.inputs.len(), ins.len())));
        }
        if d.outputs != outs {
            out.push(v("outputs-view-differs", format!("{what}: outputs() yields {} edges, expected {}", d.outputs.len(), outs.len())));
        }
    }
    match (&d.extra, want_extra) {
        (None, None) => {}
        (Some(a), Some(b)) => {
            let same = if persisted {
                // iteration stamp and converged flag are documented as not persisted
                a.tracked_struct_ids == b.tracked_struct_ids && a.cycle_heads.iter().map(|h| h.0).eq(b.cycle_heads.iter().map(|h| h.0))
            } else {
                a == b
            };
            if !same {
                out.push(v("extra-differs", format!("{what}: extra {a:?} != {b:?}")));
            }
        }
        (a, b) => out.push(v("extra-presence-differs", format!("{what}: extra {:?} expected {:?}", a.is_some(), b.is_some()))),
    }
}

/// Run every law on one case; a panic inside salsa's origin code is a violation too.
pub fn check_case(c: &EncCase) -> Vec<Violation> {
    match std::panic::catch_unwind(|| check_case_inner(c)) {
        Ok(v) => v,
        Err(p) => vec![v("panic-in-origin-code", crate::world::classify_panic(p).text())],
    }
}

fn check_case_inner(c: &EncCase) -> Vec<Violation> {
    let mut out = vec![];
    let edges: Vec<Edge> = c.edges.iter().map(|e| e.e()).collect();
    let extra = c.extra.as_ref().map(|x| x.x());
    let o = Origin::build(c.kind(), &edges, extra.as_ref());
    let d = o.decode();
    check_decoded(c, &d, &extra, "decode(build)", &mut out, false);
    if o.is_derived_untracked() != (c.kind == 1) {
        out.push(v("origin-kind-changed", "is_derived_untracked disagrees with the built kind".into()));
    }
    // get_or_insert_extra keeps edges and kind; inserts an empty extra only if there was none
    {
        let mut o2 = Origin::build(c.kind(), &edges, extra.as_ref());
        o2.get_or_insert_extra();
        let want = Some(extra.clone().unwrap_or_default());
        check_decoded(c, &o2.decode(), &want, "get_or_insert_extra", &mut out, false);
        #[cfg(not(feature = "persist"))]
        if c.kind != 2 {
            o2.clear_edges();
            let empty = EncCase { kind: c.kind, edges: vec![], extra: None };
            check_decoded(&empty, &o2.decode(), &want, "get_or_insert_extra;clear_edges", &mut out, false);
        }
    }
    #[cfg(not(feature = "persist"))]
    if c.kind != 2 {
        let mut o3 = Origin::build(c.kind(), &edges, extra.as_ref());
        o3.clear_edges();
        let empty = EncCase { kind: c.kind, edges: vec![], extra: None };
        check_decoded(&empty, &o3.decode(), &extra, "clear_edges", &mut out, false);
    }
    #[cfg(feature = "persist")]
    {
        match serde_json::to_string(&o) {
            Ok(js) => match serde_json::from_str::<Origin>(&js) {
                Ok(o4) => check_decoded(c, &o4.decode(), &extra, "deserialize(serialize)", &mut out, true),
                Err(e) => out.push(v("persisted-origin-does-not-deserialize", format!("{e}: {js}"))),
            },
            Err(e) => out.push(v("origin-does-not-serialize", e.to_string())),
        }
    }
    out
}

// ---------------------------------------------------------------------------------------------
// generators
// ---------------------------------------------------------------------------------------------

fn gen_edge(t: &mut Tape) -> PEdge {
    // 80% boundary classes, 20% arbitrary values
    let ingredient = if t.chance(1, 5) { t.raw() & 0x7FFF_FFFF } else { ING[t.pick(ING.len() as u32) as usize] };
    let index = if t.chance(1, 5) { t.raw() % IDX_MAX } else { IDX[t.pick(IDX.len() as u32) as usize] };
    let generation = if t.chance(1, 5) { t.raw() } else { GENS[t.pick(GENS.len() as u32) as usize] };
    PEdge { output: t.chance(1, 6), ingredient, index, generation }
}

fn gen_packable(t: &mut Tape) -> PEdge {
    PEdge { output: false, ingredient: [0, 1, 0xFFE, 0xFFF][t.pick(4) as usize], index: IDX[t.pick(IDX.len() as u32) as usize], generation: [0, 1, 0xFFFFE, 0xFFFFF][t.pick(4) as usize] }
}

fn gen_extra(t: &mut Tape) -> Option<PExtra> {
    if !t.chance(1, 2) {
        return None;
    }
    let nt = t.pick(4);
    let nh = t.pick(4);
    let mut heads: Vec<(PEdge, u8)> = vec![];
    for _ in 0..nh {
        let mut h = gen_edge(t);
        h.output = false;
        if !heads.iter().any(|(x, _)| *x == h) {
            heads.push((h, t.pick(201) as u8));
        }
    }
    Some(PExtra {
        tracked: (0..nt)
            .map(|_| {
                let mut id = gen_edge(t);
                id.output = false;
                let ing = id.ingredient;
                (ing, ((t.raw() as u64) << 32) | t.raw() as u64, t.raw(), id)
            })
            .collect(),
        heads,
        iteration: t.pick(201) as u8,
        converged: t.chance(1, 2),
    })
}

pub fn gen_enc_case(tape: &[u32]) -> EncCase {
    let mut t = Tape::new(tape);
    let kind = t.weighted(&[5, 3, 1]) as u8;
    let shape = t.pick(3);
    let mut edges = vec![];
    if kind == 2 {
        edges.push(gen_edge(&mut t));
    } else if shape == 0 {
        // arbitrary mix
        let n = t.pick(65);
        for _ in 0..n {
            edges.push(gen_edge(&mut t));
        }
    } else {
        // a run of packable edges, one non-packable edge at a chosen position (spill path), then more
        let n = 1 + t.pick(64);
        let pos = t.pick(n);
        for i in 0..n {
            if i == pos && shape == 1 {
                let mut e = gen_edge(&mut t);
                if e.packable() {
                    e.generation = 0x100000;
                }
                edges.push(e);
            } else {
                edges.push(gen_packable(&mut t));
            }
        }
    }
    let extra = gen_extra(&mut t);
    EncCase { kind, edges, extra }
}

fn all_edges() -> Vec<PEdge> {
    let mut v = vec![];
    for output in [false, true] {
        for &ingredient in &ING {
            for &index in &IDX {
                for &generation in &GENS {
                    v.push(PEdge { output, ingredient, index, generation });
                }
            }
        }
    }
    v
}

#[derive(Clone, Debug, Serialize, Deserialize)]
pub struct EncReplay {
    pub property: String,
    pub engine: String,
    pub config: String,
    pub seed: u64,
    pub enc_case: EncCase,
    pub violations: Vec<Violation>,
}

pub fn config_name() -> &'static str {
    if cfg!(feature = "persist") { "persist" } else { "std" }
}

fn write_replay(replay_dir: &str, seed: u64, c: &EncCase, viol: &[Violation]) -> String {
    let rp = EncReplay { property: "C25".into(), engine: "enc".into(), config: config_name().into(), seed, enc_case: c.clone(), violations: viol.to_vec() };
    let _ = std::fs::create_dir_all(replay_dir);
    let path = format!("{replay_dir}/C25-enc-seed{seed}-{:016x}.json", c.hash());
    std::fs::write(&path, serde_json::to_string_pretty(&rp).unwrap()).ok();
    path
}

/// `exhaustive`: enumerate the whole length <= 2 space (shard `shard` of `nshards`) before the
/// random cases.
pub fn run_enc(cases: u32, seed: u64, replay_dir: &str, exhaustive: Option<(u32, u32)>) -> Summary {
    let t0 = std::time::Instant::now();
    let mut sum = Summary { property: "C25".into(), engine: "enc".into(), seed, ..Default::default() };
    let mut labels: BTreeMap<String, u64> = BTreeMap::new();
    let mut nontrivial: BTreeSet<u64> = BTreeSet::new();
    let mut samples: Vec<serde_json::Value> = vec![];
    let mut ncases = 0u64;
    let mut enumerated_nt = 0u64;
    let mut first_fail: Option<(EncCase, Vec<Violation>)> = None;

    if let Some((shard, nshards)) = exhaustive {
        let all = all_edges();
        let ex = [None, Some(PExtra { tracked: vec![(3, 0xDEAD_BEEF_0000_0001, 7, PEdge { output: false, ingredient: 3, index: 5, generation: 1 })], heads: vec![(PEdge { output: false, ingredient: 9, index: 4, generation: 0 }, 3)], iteration: 3, converged: true })];
        let mut seq_no = 0u64;
        let mut run = |c: EncCase, seq_no: &mut u64, ncases: &mut u64, enumerated_nt: &mut u64, first_fail: &mut Option<(EncCase, Vec<Violation>)>, samples: &mut Vec<serde_json::Value>| {
            *seq_no += 1;
            if (*seq_no % nshards as u64) != shard as u64 || first_fail.is_some() {
                return;
            }
            *ncases += 1;
            if c.nontrivial() {
                *enumerated_nt += 1;
                if samples.len() < 2 && *seq_no % 50_021 == shard as u64 {
                    samples.push(serde_json::to_value(&c).unwrap());
                }
            }
            let viol = check_case(&c);
            if !viol.is_empty() {
                *first_fail = Some((c, viol));
            }
        };
        for extra in &ex {
            for kind in 0..2u8 {
                run(EncCase { kind, edges: vec![], extra: extra.clone() }, &mut seq_no, &mut ncases, &mut enumerated_nt, &mut first_fail, &mut samples);
                for a in &all {
                    run(EncCase { kind, edges: vec![a.clone()], extra: extra.clone() }, &mut seq_no, &mut ncases, &mut enumerated_nt, &mut first_fail, &mut samples);
                    for b in &all {
                        run(EncCase { kind, edges: vec![a.clone(), b.clone()], extra: extra.clone() }, &mut seq_no, &mut ncases, &mut enumerated_nt, &mut first_fail, &mut samples);
                    }
                }
            }
            for a in &all {
                run(EncCase { kind: 2, edges: vec![a.clone()], extra: extra.clone() }, &mut seq_no, &mut ncases, &mut enumerated_nt, &mut first_fail, &mut samples);
            }
        }
        *labels.entry("exhaustive-len<=2".into()).or_default() += ncases;
        sum.extra.insert("exhaustive_len2_done".into(), if first_fail.is_none() { 1 } else { 0 });
        sum.extra.insert("enumerated_cases".into(), ncases);
        sum.extra.insert("enumerated_nontrivial".into(), enumerated_nt);
    }

    if first_fail.is_none() && cases > 0 {
        let cfg = Config { cases, failure_persistence: None, rng_algorithm: RngAlgorithm::ChaCha, rng_seed: RngSeed::Fixed(seed), max_shrink_iters: 4000, max_global_rejects: 0, ..Config::default() };
        let mut runner = TestRunner::new(cfg);
        let strat = proptest::collection::vec(any::<u32>(), 4..=600);
        let st = std::cell::RefCell::new((0u64, false));
        let labels_c = std::cell::RefCell::new(&mut labels);
        let nt_c = std::cell::RefCell::new(&mut nontrivial);
        let samples_c = std::cell::RefCell::new(&mut samples);
        let result = runner.run(&strat, |tape| {
            let c = gen_enc_case(&tape);
            let viol = check_case(&c);
            let mut s = st.borrow_mut();
            if s.1 {
                return if viol.is_empty() { Ok(()) } else { Err(TestCaseError::fail("enc")) };
            }
            s.0 += 1;
            let mut l = labels_c.borrow_mut();
            let packable = c.edges.iter().filter(|e| e.packable()).count();
            if c.kind != 2 && packable == c.edges.len() && !c.edges.is_empty() {
                *l.entry("all-packable".into()).or_default() += 1;
            }
            if packable > 0 && packable < c.edges.len() {
                *l.entry("mixed-packable-wide".into()).or_default() += 1;
            }
            if c.edges.iter().any(|e| e.output) {
                *l.entry("has-output-edge".into()).or_default() += 1;
            }
            if c.extra.is_some() {
                *l.entry("has-extra".into()).or_default() += 1;
            }
            if c.edges.len() > 16 {
                *l.entry("len>16".into()).or_default() += 1;
            }
            if c.nontrivial() {
                *l.entry("nontrivial".into()).or_default() += 1;
                if nt_c.borrow_mut().insert(c.hash()) {
                    let mut sm = samples_c.borrow_mut();
                    if sm.len() < 3 && c.edges.len() <= 6 {
                        sm.push(serde_json::to_value(&c).unwrap());
                    }
                }
            }
            if !viol.is_empty() {
                s.1 = true;
                return Err(TestCaseError::fail("enc"));
            }
            Ok(())
        });
        ncases += st.borrow().0;
        if let Err(TestError::Fail(_, tape)) = result {
            let c = gen_enc_case(&tape);
            // case-level minimisation: drop edges while it still fails
            let mut cur = c;
            loop {
                let mut changed = false;
                for i in (0..cur.edges.len()).rev() {
                    if cur.kind == 2 {
                        break;
                    }
                    let mut c2 = cur.clone();
                    c2.edges.remove(i);
                    if !check_case(&c2).is_empty() {
                        cur = c2;
                        changed = true;
                    }
                }
                if cur.extra.is_some() {
                    let mut c2 = cur.clone();
                    c2.extra = None;
                    if !check_case(&c2).is_empty() {
                        cur = c2;
                        changed = true;
                    }
                }
                if !changed {
                    break;
                }
            }
            let viol = check_case(&cur);
            first_fail = Some((cur, viol));
        } else if let Err(TestError::Abort(r)) = result {
            sum.harness_error = Some(format!("proptest aborted: {r}"));
        }
    }

    if let Some((c, viol)) = first_fail {
        let path = write_replay(replay_dir, seed, &c, &viol);
        sum.violations = viol;
        sum.replay = Some(path);
    }
    sum.cases = ncases;
    sum.steps = ncases;
    sum.nontrivial_hashes = nontrivial.into_iter().collect();
    sum.labels = labels;
    sum.samples = samples;
    sum.wall_s = t0.elapsed().as_secs_f64();
    sum
}

pub fn replay(path: &str) -> Result<Vec<Violation>, String> {
    let rp: EncReplay = serde_json::from_str(&std::fs::read_to_string(path).map_err(|e| e.to_string())?).map_err(|e| e.to_string())?;
    Ok(check_case(&rp.enc_case))
}

//! C26 — persistence. History = H1 · Snapshot · H2 in the `persist` build: at `Snapshot` the
//! database is serialized with serde_json and deserialized into a fresh database, where the
//! history continues. The value oracle (reference + fresh-database differential) runs over the
//! whole history; this oracle adds the "restored results are not re-executed" clause and
//! recognises the listed finding about deleted tracked-struct slots.

use std::collections::{BTreeSet, HashMap};

use super::*;
use crate::obs::*;

pub const KF_SLOT_GAP: &str = "kf:c26-roundtrip-fails-after-tracked-struct-deletion";
/// Listed finding: serializing the memos of a persisted function keyed by tracked structs fetches
/// every struct's memo table, which read-locks the struct for the current revision (sets its
/// `updated_at`). A struct whose creator had not been validated in that revision then counts as
/// already up to date: until the next write, re-creating it keeps its stale tracked fields and
/// dropping it panics with "cannot delete read-locked id" (in the restored database, and in the
/// original one as well).
/// Listed finding: the edges of a persisted memo that depends on a NON-persisted function are
/// flattened down to the base inputs of that function's whole subtree; an untracked read anywhere
/// in that subtree (origin DerivedUntracked) leaves no trace: the restored memo is an ordinary
/// Derived memo and is never re-executed when the untracked state changes.
pub const KF_UNTRACKED_LOST: &str = "kf:c26-untracked-read-of-nonpersisted-dependency-lost";
pub const KF_READ_LOCK: &str = "kf:c26-serialization-read-locks-unverified-tracked-structs";
/// Listed finding: a persisted memo that is not verified in the snapshot revision is serialized
/// with the flattened edges of its non-persisted callee's *newer* execution (the callee re-ran
/// because its interned value had been reclaimed and interned the value again under a new id).
/// The restored memo validates against those edges although its value (the reclaimed id) is stale.
/// Listed finding: same walk, but the callee's memo still holds an edge to a function keyed by a
/// tracked struct that has been deleted since: looking up that memo read-locks the deleted struct
/// and serialization panics ("write lock taken").
pub const KF_FLATTEN_DELETED: &str = "kf:c26-serialize-panics-on-stale-edge-to-function-of-deleted-struct";
pub const KF_FLATTEN_STALE: &str = "kf:c26-flattened-edges-of-stale-memo-from-newer-callee-execution";

pub struct Persisted {
    inner: Box<dyn Oracle>,
    /// last revision in which the key was executed or validated
    verified: HashMap<LKey, u32>,
    untracked_last: HashMap<LKey, bool>,
    /// keys that must not execute between the snapshot and the next write
    frozen: BTreeSet<LKey>,
    snapshot_seen: bool,
    wrote_after: bool,
    /// tracked-struct slot indices currently free / live
    freed_ix: BTreeSet<u32>,
    live_ix: BTreeSet<u32>,
    ent_ing: Option<salsa::IngredientIndex>,
    // stats
    revs_before: BTreeSet<u32>,
    had_deleted_struct: bool,
    had_interned_reuse: bool,
    persisted_over_nonpersisted: bool,
    frozen_requested: u32,
    gets_after: u32,
    /// struct index -> creator
    creator_of: HashMap<u32, LKey>,
    /// the snapshot read-locked a struct whose creator was not validated in that revision
    tainted_until_write: bool,
    taints: u32,
    /// non-persisted keys whose last execution (transitively through non-persisted callees)
    /// read untracked state
    untracked_np: BTreeSet<LKey>,
    /// some persisted key's last execution called such a key
    untracked_lost: bool,
    read_lock_manifested: bool,
    /// last revision in which the key's body ran
    exec_rev: HashMap<LKey, u32>,
    /// calls of the key's last execution
    calls_last: HashMap<LKey, Vec<LKey>>,
    /// at the snapshot: an unverified persisted memo whose non-persisted callee subtree re-ran
    /// after the memo was last verified, with interned slots reclaimed before the snapshot
    flatten_stale: bool,
}

impl Persisted {
    pub fn new(inner: Box<dyn Oracle>) -> Self {
        Persisted {
            inner,
            verified: Default::default(),
            untracked_last: Default::default(),
            frozen: Default::default(),
            snapshot_seen: false,
            wrote_after: false,
            freed_ix: Default::default(),
            live_ix: Default::default(),
            ent_ing: None,
            revs_before: Default::default(),
            had_deleted_struct: false,
            had_interned_reuse: false,
            persisted_over_nonpersisted: false,
            frozen_requested: 0,
            gets_after: 0,
            creator_of: Default::default(),
            tainted_until_write: false,
            taints: 0,
            untracked_np: Default::default(),
            untracked_lost: false,
            read_lock_manifested: false,
            exec_rev: Default::default(),
            calls_last: Default::default(),
            flatten_stale: false,
        }
    }
}

/// is a memo of this key serialized?
pub fn persisted_key(prog: &Program, zero0: Option<u8>, k: LKey) -> bool {
    match k {
        LKey::Node(n, _) => match prog.nodes[n as usize].kind {
            Kind::Plain | Kind::Ref | Kind::Two => true,
            Kind::Zero => zero0 == Some(n),
            _ => false,
        },
        LKey::OnEnt(_) => true,
        LKey::OnSym(0, _) => true,
        _ => false,
    }
}

fn ix(id: u64) -> u32 {
    (id & 0xFFFF_FFFF) as u32
}

impl Oracle for Persisted {
    fn step(&mut self, cx: &StepCtx) -> Vec<Violation> {
        let mut out = vec![];
        let prog = &cx.case.prog;
        let zero0 = cx.world.ctx.zero_nodes[0];
        if !self.snapshot_seen {
            self.revs_before.insert(cx.rev);
        }
        for r in cx.recs {
            match r {
                Rec::Ev(_, Ev::WillExecute(dk)) => {
                    if let Some(l) = cx.ix.dk2l.get(dk) {
                        if self.snapshot_seen && !self.wrote_after && self.frozen.contains(l) {
                            out.push(viol(
                                "restored-memo-re-executed",
                                cx.idx,
                                format!("{l:?} was valid in the snapshot revision and no input was written since the restore, but its body ran again"),
                            ));
                        }
                    }
                }
                Rec::Ev(_, Ev::DidValidate(dk)) => {
                    if let Some(l) = cx.ix.dk2l.get(dk) {
                        self.verified.insert(*l, cx.rev);
                    }
                }
                Rec::Ev(_, Ev::DidReuseInterned(_)) => self.had_interned_reuse = true,
                Rec::Ev(_, Ev::DidDiscard(dk)) => {
                    // slot indices are unique across the whole table, so a discarded id that is a
                    // live struct of ours is a struct deletion (stale output of a re-executed
                    // creator, or output of a memo dropped with its reclaimed interned key)
                    if Some(dk.ing) == self.ent_ing || (self.live_ix.contains(&ix(dk.id)) && cx.ix.ents.contains_key(&dk.id)) {
                        self.ent_ing = Some(dk.ing);
                        self.had_deleted_struct = true;
                        self.live_ix.remove(&ix(dk.id));
                        self.freed_ix.insert(ix(dk.id));
                    }
                }
                Rec::Ev(_, Ev::WillDiscardStale { out: o, .. }) => {
                    // learn the tracked-struct ingredient index from a struct that is known to us
                    if self.live_ix.contains(&ix(o.id)) && self.ent_ing.is_none() && cx.ix.ents.contains_key(&o.id) {
                        self.ent_ing = Some(o.ing);
                    }
                }
                Rec::Made(creator, c) => {
                    if self.tainted_until_write {
                        // a struct (re-)created while the stray read locks of the snapshot are in
                        // force may keep stale tracked fields for good
                        self.read_lock_manifested = true;
                    }
                    self.freed_ix.remove(&ix(c.id));
                    self.live_ix.insert(ix(c.id));
                    self.creator_of.insert(ix(c.id), *creator);
                }
                Rec::End(rec) => {
                    self.verified.insert(rec.key, cx.rev);
                    self.exec_rev.insert(rec.key, cx.rev);
                    self.calls_last.insert(rec.key, rec.calls.clone());
                    self.untracked_last.insert(rec.key, rec.untracked);
                    if persisted_key(prog, zero0, rec.key) && rec.calls.iter().any(|c| !persisted_key(prog, zero0, *c)) {
                        self.persisted_over_nonpersisted = true;
                    }
                    // `untracked_np` = keys whose subtree (any kinds) contains an untracked read
                    let via_sub = rec.calls.iter().any(|c| self.untracked_np.contains(c));
                    if rec.untracked || via_sub {
                        self.untracked_np.insert(rec.key);
                    } else {
                        self.untracked_np.remove(&rec.key);
                    }
                    // flattening through a NON-persisted callee goes down to base inputs and drops
                    // every untracked read in that callee's subtree
                    if persisted_key(prog, zero0, rec.key) && !rec.untracked && rec.calls.iter().any(|c| !persisted_key(prog, zero0, *c) && self.untracked_np.contains(c)) {
                        self.untracked_lost = true;
                    }
                }
                _ => {}
            }
        }
        match cx.res {
            StepRes::Snap { real } => {
                self.snapshot_seen = true;
                self.wrote_after = false;
                self.frozen = self
                    .verified
                    .iter()
                    .filter(|(k, r)| **r == cx.rev_before && persisted_key(prog, zero0, **k) && !self.untracked_last.get(*k).copied().unwrap_or(false))
                    .map(|(k, _)| *k)
                    .collect();
                // listed finding KF_READ_LOCK: some live struct's creator was not validated in the
                // snapshot revision
                let unverified = self.live_ix.iter().any(|i| self.creator_of.get(i).map(|c| self.verified.get(c).copied() != Some(cx.rev_before)).unwrap_or(false));
                if unverified {
                    self.tainted_until_write = true;
                    self.taints += 1;
                }
                // listed finding KF_UNTRACKED_LOST, evaluated on the memos as they are now: the
                // callee may have started to read untracked state after the persisted caller last
                // ran (the caller was only validated since)
                for k in self.calls_last.keys() {
                    if !persisted_key(prog, zero0, *k) || self.untracked_last.get(k).copied().unwrap_or(false) {
                        continue;
                    }
                    let mut stack: Vec<LKey> = self.calls_last.get(k).map(|v| v.iter().copied().filter(|c| !persisted_key(prog, zero0, *c)).collect()).unwrap_or_default();
                    let mut seen: BTreeSet<LKey> = BTreeSet::new();
                    while let Some(c) = stack.pop() {
                        if !seen.insert(c) {
                            continue;
                        }
                        if self.untracked_last.get(&c).copied().unwrap_or(false) {
                            self.untracked_lost = true;
                        }
                        stack.extend(self.calls_last.get(&c).cloned().unwrap_or_default());
                    }
                }
                // keys whose *current* memos the serializer walks when it flattens the edges of a
                // persisted memo that is not verified in the snapshot revision: its non-persisted
                // callees and everything below them
                let mut stale_walk: Vec<(LKey, u32)> = vec![];
                for (k, vr) in self.verified.iter() {
                    if *vr >= cx.rev_before || !persisted_key(prog, zero0, *k) {
                        continue;
                    }
                    let mut stack: Vec<LKey> = self.calls_last.get(k).map(|v| v.iter().copied().filter(|c| !persisted_key(prog, zero0, *c)).collect()).unwrap_or_default();
                    let mut seen: BTreeSet<LKey> = BTreeSet::new();
                    while let Some(c) = stack.pop() {
                        if !seen.insert(c) {
                            continue;
                        }
                        stale_walk.push((c, *vr));
                        stack.extend(self.calls_last.get(&c).cloned().unwrap_or_default());
                    }
                }
                // listed finding KF_FLATTEN_STALE
                if self.had_interned_reuse && stale_walk.iter().any(|(c, vr)| self.exec_rev.get(c).copied().unwrap_or(0) > *vr) {
                    self.flatten_stale = true;
                }
                // listed finding KF_FLATTEN_DELETED: the walk reaches a function keyed by a struct
                // that has been deleted since
                let walk_hits_deleted = stale_walk.iter().any(|(c, _)| match c {
                    LKey::OnEnt(id) | LKey::OnEntSpec(id) => self.freed_ix.contains(&ix(*id)),
                    _ => false,
                });
                if let Err(p) = real {
                    if walk_hits_deleted && p.text().contains("serialize panicked: write lock taken") {
                        out.push(viol(KF_FLATTEN_DELETED, cx.idx, p.text()));
                    }
                }
                if let Err(p) = real {
                    // listed finding: a deleted tracked-struct slot precedes a live one
                    let gap = self.freed_ix.iter().any(|f| self.live_ix.iter().any(|l| f < l));
                    if gap && p.text().contains("values are serialized in allocation order") {
                        out.push(viol(KF_SLOT_GAP, cx.idx, p.text()));
                    }
                }
            }
            StepRes::Write { real: Ok(()), .. } => {
                if self.snapshot_seen {
                    self.wrote_after = true;
                }
                // a new revision: the stray read locks are outdated
                if cx.rev != cx.rev_before {
                    self.tainted_until_write = false;
                }
            }
            StepRes::Got { key, real: Ok(_), .. } => {
                if self.snapshot_seen {
                    self.gets_after += 1;
                    if !self.wrote_after && self.frozen.contains(&LKey::Node(key.0, key.1)) {
                        self.frozen_requested += 1;
                    }
                }
            }
            _ => {}
        }
        let tainted = self.tainted_until_write;
        let mut inner = self.inner.step(cx);
        if tainted || self.read_lock_manifested {
            for x in inner.iter_mut() {
                if matches!(x.rule.as_str(), "value-mismatch" | "unexpected-panic") {
                    x.rule = KF_READ_LOCK.to_string();
                    // the interrupted deletion leaves the struct write-locked and the creator's
                    // memo stale: the database stays affected in later revisions
                    self.read_lock_manifested = true;
                }
            }
        }
        if self.snapshot_seen && self.untracked_lost {
            // besides stale values: the restored memo is deep-verified edge by edge instead of
            // being re-executed outright, so functions keyed by its old structs run (and
            // read-lock those structs) before the creator re-executes and drops them
            for x in inner.iter_mut() {
                if x.rule == "value-mismatch" || x.rule == "unexpected-panic" {
                    x.rule = KF_UNTRACKED_LOST.to_string();
                }
            }
        }
        if self.snapshot_seen && self.flatten_stale {
            for x in inner.iter_mut() {
                if x.rule == "value-mismatch" {
                    x.rule = KF_FLATTEN_STALE.to_string();
                }
            }
        }
        out.extend(inner);
        out
    }

    fn finish(&mut self, case: &Case, ix: &Index) -> Vec<Violation> {
        self.inner.finish(case, ix)
    }

    fn labels(&self) -> Vec<&'static str> {
        let mut l: Vec<&'static str> = self.inner.labels().into_iter().filter(|x| *x != "nontrivial").collect();
        if self.taints > 0 {
            l.push("kf-c26-snapshot-with-unverified-structs");
        }
        if self.untracked_lost && self.snapshot_seen {
            l.push("kf-c26-untracked-via-nonpersisted");
        }
        if self.flatten_stale {
            l.push("kf-c26-stale-memo-over-rerun-nonpersisted-callee");
        }
        if self.snapshot_seen && self.revs_before.len() >= 2 && (self.had_deleted_struct || self.had_interned_reuse) && self.persisted_over_nonpersisted && self.gets_after > 0 {
            l.push("nontrivial");
        }
        if self.frozen_requested > 0 {
            l.push("restored-memo-requested-before-write");
        }
        if self.had_deleted_struct {
            l.push("struct-deleted-before-snapshot");
        }
        if self.had_interned_reuse {
            l.push("interned-reuse-before-snapshot");
        }
        if self.persisted_over_nonpersisted {
            l.push("persisted-over-nonpersisted");
        }
        if self.gets_after > 0 {
            l.push("requests-after-restore");
        }
        l
    }
}

pub fn spec_c26() -> PropSpec {
    let mut pf = Profile::base();
    pf.durs = [5, 1, 1, 0];
    pf.max_cells = 1;
    // plain (persisted), no_eq (not persisted), returns(ref) (persisted), zero-arg (first persisted,
    // second not), two-arg (persisted), no lru
    pf.kinds = [5, 3, 2, 2, 3, 0, 0, 0, 0, 0];
    // no specify / accumulate; untracked reads allowed
    pf.ops = [6, 7, 3, 2, 3, 2, 0, 0, 3, 2, 2, 1, 0];
    pf.steps = [9, 6, 1, 1, 0, 0, 0, 1, 1];
    pf.max_steps = 28;
    pf.min_steps = 6;
    pf.snapshot = true;
    PropSpec {
        id: "C26",
        profile: pf,
        tape_len: 450,
        make: || {
            let mut v = ValueOracle::new();
            v.check_identity = false;
            vec![Box::new(Persisted::new(Box::new(v)))]
        },
        nt_rule: "",
        engine: "seq",
        runner: None,
        decode: None,
    }
}

//! C19 — history invariants over the wait / wake / transfer protocol trace that salsa itself
//! records (guarded hook in `runtime/dependency_graph.rs`; every record is written while the
//! dependency-graph mutex is held, so the trace is totally ordered).
//!
//! I1  every `Block(w)` is followed by exactly one `Wake(w, r)` and one `Resume(w, r)` with the
//!     same result before `w` blocks again; no `Wake`/`Resume` without a pending `Block`; at the
//!     end of a terminated execution no `Block` is pending (lost wake-up).
//! I2  a `Wake(w, r)` is justified: it directly follows (only other wake-ups / edge re-targets in
//!     between) a `Release(key, r)` of the key `w` waits for, or a `Transfer` that makes `w`'s
//!     thread the owner of what it waits for (then r = completed).
//! I3  the wait-for graph rebuilt from Block / Retarget / Wake is acyclic after every record.
//! I4  no `Block(w, _, o)` is recorded when `o == w` or `o` already waits (transitively) for `w`.
//! I6  a waiter is told "cancelled" only if the computation it waited for was unwound by a local
//!     cancellation; local cancellation is deferred while the body of a function with cycle
//!     recovery runs on the owner's thread (harness markers `cyc-enter` / `cyc-exit` in the same
//!     trace), so no `Wake(w, cancelled)` may occur while the owner is inside such a span.
//! I5  when the owner of handed-over queries releases them (the cascade `TransferEnded(o)`,
//!     `Release(q, r)`, `TransferEnded(q)`, `Release(q', r')`, ... written under one lock), every
//!     query is released with the outcome its owner was released with, at every nesting depth.

use std::collections::BTreeMap;

use salsa::verif_hooks::TraceEvent as T;

use crate::seq::Violation;

#[derive(Default)]
pub struct ProtoCheck {
    /// waiter -> (key, owner thread)
    pending: BTreeMap<u64, ((u32, u64), u64)>,
    /// waiter -> result of the wake-up not yet consumed
    woken: BTreeMap<u64, u8>,
    /// wait-for edges
    waitfor: BTreeMap<u64, u64>,
    /// what may justify the next Wake records
    cause: Cause,
    pub blocks: u64,
    pub transfers: u64,
    pub wakes_not_completed: u64,
    pub retargets: u64,
    /// query -> query that holds its lock (from `Transfer` records)
    transferred: BTreeMap<(u32, u64), (u32, u64)>,
    /// outcome of the last release of a key
    last_release: BTreeMap<(u32, u64), u8>,
    /// owners whose hand-overs are being dissolved in the cascade under way
    in_cascade: Vec<(u32, u64)>,
    pub nested_releases: u64,
    /// thread -> number of open bodies of functions with cycle recovery (harness markers)
    cyc_open: BTreeMap<u64, u32>,
    /// wake-ups with a result other than completed whose owner was inside a cycle span
    pub failed_wakes_in_span: u64,
}

#[derive(Default, Clone, Copy, PartialEq, Eq)]
enum Cause {
    #[default]
    None,
    Release((u32, u64), u8),
    Transfer(u64),
}

fn v(rule: &str, detail: String) -> Violation {
    Violation { rule: rule.into(), step: 0, detail }
}

impl ProtoCheck {
    fn reaches(&self, from: u64, to: u64) -> bool {
        let mut p = from;
        let mut n = 0;
        while let Some(q) = self.waitfor.get(&p) {
            if *q == to {
                return true;
            }
            p = *q;
            n += 1;
            if n > 64 {
                return true; // a cycle not through `to`: reported by the acyclicity check
            }
        }
        false
    }

    fn acyclic(&self) -> bool {
        for start in self.waitfor.keys() {
            let mut p = *start;
            let mut n = 0;
            while let Some(q) = self.waitfor.get(&p) {
                if *q == *start {
                    return false;
                }
                p = *q;
                n += 1;
                if n > 64 {
                    return false;
                }
            }
        }
        true
    }

    pub fn feed(&mut self, evs: &[T], out: &mut Vec<Violation>) {
        for (i, e) in evs.iter().enumerate() {
            match e {
                T::Block { waiter, key, owner } => {
                    self.blocks += 1;
                    if waiter == owner || self.reaches(*owner, *waiter) {
                        out.push(v("c19-wait-closes-cycle", format!("record #{i}: thread {waiter:x} waits for {key:?} owned by {owner:x}, which already waits for it")));
                    }
                    if self.pending.contains_key(waiter) {
                        out.push(v("c19-block-while-blocked", format!("record #{i}: thread {waiter:x} blocks on {key:?} while its previous wait is still pending")));
                    }
                    self.pending.insert(*waiter, (*key, *owner));
                    self.waitfor.insert(*waiter, *owner);
                    self.cause = Cause::None;
                }
                T::Retarget { waiter, new_owner_thread } => {
                    self.retargets += 1;
                    if !self.pending.contains_key(waiter) || self.woken.contains_key(waiter) {
                        out.push(v("c19-retarget-of-non-waiter", format!("record #{i}: edge of thread {waiter:x} re-targeted although it is not waiting")));
                    } else {
                        self.waitfor.insert(*waiter, *new_owner_thread);
                    }
                }
                T::Release { key, result } => {
                    self.cause = Cause::Release(*key, *result);
                    if let Some(o) = self.transferred.get(key).copied() {
                        if self.in_cascade.contains(&o) {
                            if self.in_cascade.len() >= 2 {
                                self.nested_releases += 1;
                            }
                            if let Some(ro) = self.last_release.get(&o) {
                                if ro != result {
                                    out.push(v(
                                        "c19-transferred-query-released-with-other-outcome",
                                        format!("record #{i}: {key:?}, whose lock was handed over to {o:?}, is released with result {result} although {o:?} was released with {ro}"),
                                    ));
                                }
                            }
                            self.transferred.remove(key);
                        }
                    }
                    self.last_release.insert(*key, *result);
                }
                T::Transfer { query, new_owner, new_owner_thread, .. } => {
                    self.transfers += 1;
                    self.cause = Cause::Transfer(*new_owner_thread);
                    self.transferred.insert(*query, *new_owner);
                }
                T::TransferEnded { query } => {
                    self.transferred.remove(query);
                    self.in_cascade.push(*query);
                }
                T::Raw("cyc-enter", t, _, _) => *self.cyc_open.entry(*t).or_default() += 1,
                T::Raw("cyc-exit", t, _, _) => {
                    if let Some(c) = self.cyc_open.get_mut(t) {
                        *c = c.saturating_sub(1);
                    }
                }
                T::Wake { thread, result } => {
                    if *result != 0 {
                        self.wakes_not_completed += 1;
                    }
                    if *result != 0 {
                        if let Some(o) = self.waitfor.get(thread) {
                            if self.cyc_open.get(o).copied().unwrap_or(0) > 0 {
                                self.failed_wakes_in_span += 1;
                            }
                        }
                    }
                    if *result == 2 {
                        if let Some((key, _)) = self.pending.get(thread) {
                            let owner = self.waitfor.get(thread).copied();
                            if let Some(o) = owner {
                                if self.cyc_open.get(&o).copied().unwrap_or(0) > 0 {
                                    out.push(v(
                                        "c19-waiter-told-cancelled-while-owner-defers-cancellation",
                                        format!("record #{i}: thread {thread:x} (waiting for {key:?}) is told that the computation was cancelled, but its owner {o:x} is inside a function with cycle recovery, where local cancellation is deferred: the computation ended for another reason"),
                                    ));
                                }
                            }
                        }
                    }
                    match self.pending.get(thread) {
                        None => out.push(v("c19-wake-without-wait", format!("record #{i}: thread {thread:x} woken although it is not waiting"))),
                        Some((key, _)) => {
                            if self.woken.contains_key(thread) {
                                out.push(v("c19-woken-twice", format!("record #{i}: thread {thread:x} woken a second time for one wait")));
                            }
                            let ok = match self.cause {
                                Cause::Release(k, r) => k == *key && r == *result,
                                // the hand-over wakes the thread that the new owner (transitively) waits for
                                Cause::Transfer(t) => (t == *thread || self.reaches(t, *thread)) && *result == 0,
                                Cause::None => false,
                            };
                            if !ok {
                                out.push(v(
                                    "c19-unjustified-wake",
                                    format!("record #{i}: thread {thread:x} (waiting for {key:?}) woken with result {result} without a matching release of that key or a hand-over of ownership to it"),
                                ));
                            }
                        }
                    }
                    self.woken.insert(*thread, *result);
                    self.waitfor.remove(thread);
                }
                T::Resume { thread, result } => {
                    match self.woken.remove(thread) {
                        None => out.push(v("c19-resume-without-wake", format!("record #{i}: thread {thread:x} left its wait without having been woken"))),
                        Some(r) if r != *result => out.push(v("c19-result-mismatch", format!("record #{i}: thread {thread:x} woken with {r} but resumed with {result}"))),
                        Some(_) => {}
                    }
                    if self.pending.remove(thread).is_none() {
                        out.push(v("c19-resume-without-wait", format!("record #{i}: thread {thread:x} resumed without a pending wait")));
                    }
                    self.cause = Cause::None;
                }
                _ => {}
            }
            if !matches!(e, T::Wake { .. } | T::Release { .. } | T::TransferEnded { .. } | T::CycleHead { .. } | T::Raw(..)) {
                self.in_cascade.clear();
            }
            if matches!(e, T::Block { .. } | T::Retarget { .. }) && !self.acyclic() {
                out.push(v("c19-wait-graph-cyclic", format!("record #{i}: the wait-for graph has a cycle after {e:?}")));
            }
        }
    }

    /// call when the execution terminated normally (all threads joined)
    pub fn finish(&mut self, out: &mut Vec<Violation>) {
        for (w, (key, owner)) in &self.pending {
            out.push(v("c19-lost-wakeup", format!("execution ended while thread {w:x} still waits for {key:?} (owner {owner:x})")));
        }
        self.pending.clear();
        self.woken.clear();
        self.waitfor.clear();
        self.transferred.clear();
        self.last_release.clear();
        self.in_cascade.clear();
        self.cyc_open.clear();
    }
}

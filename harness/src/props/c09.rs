//! C09 — interned values are reclaimed only when stale and reclaimable ("only if" direction),
//! and values that are not reclaimed keep their identity.
//!
//! The programs have the C09 shape (prog::gen_intern_program): every interning happens in a
//! body whose only earlier operations are input-field reads, so the durability stamp recorded
//! on the interned value is exactly the minimum durability of those fields at that time.

use std::collections::{BTreeSet, HashMap};

use super::*;
use crate::obs::*;

const REVS: [usize; 4] = [1, 2, 3, usize::MAX];

#[derive(Clone, Debug)]
struct Val {
    ty: u8,
    data: u32,
    id: u64,
    /// max durability over all internings (lower bound of salsa's)
    dmax: D,
    /// latest revision in which it was interned / validated (lower bound)
    last_use: u32,
}

#[derive(Default)]
pub struct Retention {
    /// active revisions per type (superset)
    active: [BTreeSet<u32>; 4],
    /// slot index -> current occupant
    by_index: HashMap<u32, Val>,
    /// (type, data) -> slot index of the current occupant holding that data
    by_data: HashMap<(u8, u32), u32>,
    /// reuse events of the current step waiting for the new occupant's data
    legit_reuse: u32,
    boundary_kept: u32,
    immortal_kept: u32,
    durable_kept: u32,
    bursts: u32,
}

impl Retention {
    pub fn new() -> Self {
        Self::default()
    }

    fn window_min(&self, ty: u8) -> Option<u32> {
        let n = REVS[ty as usize];
        if n == usize::MAX {
            return None;
        }
        let a = &self.active[ty as usize];
        if a.len() < n {
            return None;
        }
        a.iter().rev().nth(n - 1).copied()
    }

    fn note_intern(&mut self, cx: &StepCtx, ty: u8, data: u32, id: u64, stamp: D, out: &mut Vec<Violation>) {
        let rev = cx.rev;
        let ty = ty.min(3);
        let wmin_before = if self.active[ty as usize].contains(&rev) { None } else { self.window_min(ty) };
        self.active[ty as usize].insert(rev);
        let ix = (id & 0xFFFF_FFFF) as u32;
        // identity stability: the same data had another id before => its slot must have been reused
        if let Some(&old_ix) = self.by_data.get(&(ty, data)) {
            if let Some(old) = self.by_index.get(&old_ix) {
                if old.ty == ty && old.data == data && old.id != id {
                    out.push(viol(
                        "identity-changed-without-reclaim",
                        cx.idx,
                        format!("interned (type {ty}, data {data}) had id {:#x}, now {:#x}, but its slot was never reused", old.id, id),
                    ));
                }
            }
        }
        // boundary statistics: re-interned while its last use is the oldest revision of the window
        if let Some(v) = self.by_index.get(&ix) {
            if v.id == id {
                if let Some(wmin) = wmin_before {
                    if v.last_use == wmin && v.last_use < rev && v.dmax == D::Low {
                        self.boundary_kept += 1;
                    }
                }
                if ty == 3 && v.last_use + 2 < rev {
                    self.immortal_kept += 1;
                }
                if v.dmax > D::Low && ty != 3 && v.last_use + REVS[ty as usize].min(8) as u32 + 1 < rev {
                    self.durable_kept += 1;
                }
            }
        }
        let e = self.by_index.entry(ix).or_insert(Val { ty, data, id, dmax: stamp, last_use: rev });
        if e.id != id {
            // new occupant (reuse was judged when the event arrived)
            *e = Val { ty, data, id, dmax: stamp, last_use: rev };
        } else {
            e.dmax = e.dmax.max(stamp);
            e.last_use = e.last_use.max(rev);
        }
        self.by_data.insert((ty, data), ix);
    }
}

impl Oracle for Retention {
    fn step(&mut self, cx: &StepCtx) -> Vec<Violation> {
        let mut out = vec![];
        if matches!(cx.step, Step::Synth { .. }) {
            self.bursts += 1;
        }
        for r in cx.recs {
            match r {
                Rec::Ev(_, Ev::DidValidateInterned(dk)) => {
                    let ix = (dk.id & 0xFFFF_FFFF) as u32;
                    let info = self.by_index.get(&ix).filter(|v| v.id == dk.id).map(|v| (v.ty, v.last_use, v.dmax));
                    if let Some((ty, last_use, dmax)) = info {
                        if !self.active[ty as usize].contains(&cx.rev) {
                            if let Some(wmin) = self.window_min(ty) {
                                if last_use == wmin && dmax == D::Low {
                                    self.boundary_kept += 1;
                                }
                            }
                        }
                        self.active[ty as usize].insert(cx.rev);
                        let v = self.by_index.get_mut(&ix).unwrap();
                        v.last_use = v.last_use.max(cx.rev);
                    }
                }
                Rec::Ev(_, Ev::DidReuseInterned(dk)) => {
                    let ix = (dk.id & 0xFFFF_FFFF) as u32;
                    let Some(old) = self.by_index.get(&ix).cloned() else { continue };
                    if old.id == dk.id {
                        continue;
                    }
                    let ty = old.ty;
                    // the interning that triggers the reuse makes the current revision active
                    self.active[ty as usize].insert(cx.rev);
                    let n = REVS[ty as usize];
                    let why = if n == usize::MAX {
                        Some("its type disables collection (revisions = usize::MAX)".to_string())
                    } else if old.dmax > D::Low {
                        Some(format!("it was interned with durability {:?}", old.dmax))
                    } else if self.active[ty as usize].len() < n {
                        Some(format!("only {} revisions used the type so far (revisions = {n})", self.active[ty as usize].len()))
                    } else {
                        let wmin = self.window_min(ty).unwrap();
                        if old.last_use >= wmin {
                            Some(format!("it was last used in R{} which is among the last {n} revisions that used the type (oldest of them R{wmin})", old.last_use))
                        } else {
                            None
                        }
                    };
                    match why {
                        Some(w) => out.push(viol(
                            "reclaimed-too-early",
                            cx.idx,
                            format!("interned value (type {ty}, data {}, id {:#x}) was reclaimed in R{} although {w}", old.data, old.id, cx.rev),
                        )),
                        None => self.legit_reuse += 1,
                    }
                    self.by_data.remove(&(old.ty, old.data));
                    self.by_index.remove(&ix);
                }
                Rec::End(rec) => {
                    // stamp of each interning = min durability of the fields read before it;
                    // the C09 shape guarantees reads are the only earlier dependencies. `reads`
                    // lists distinct fields in first-read order; `interned[i].3` says whether any
                    // read preceded it. Use the conservative (lowest) stamp: min over ALL reads
                    // of the body when a read preceded, else Never (read-free prefix).
                    let all_min = rec.reads.iter().map(|(s, f)| cx.model.vals[*s as usize][*f as usize].1).min().unwrap_or(D::Never);
                    for (ty, x, id, after_read) in &rec.interned {
                        let stamp = if *after_read { all_min } else { D::Never };
                        self.note_intern(cx, *ty, *x, *id, stamp, &mut out);
                    }
                }
                _ => {}
            }
        }
        if let StepRes::Interned { real: Ok(real), .. } = cx.res {
            // Interning from outside any function: a NEW value is never reclaimable; for a value
            // that already exists the statement (which speaks about functions) decides nothing
            // and salsa leaves its reclaimability unchanged — only its last use is refreshed.
            let ix = (real.1 & 0xFFFF_FFFF) as u32;
            let existing = self.by_index.get(&ix).map(|v| v.id == real.1).unwrap_or(false);
            let stamp = if existing { D::Low } else { D::Never };
            self.note_intern(cx, real.0, real.2, real.1, stamp, &mut out);
        }
        out
    }

    fn labels(&self) -> Vec<&'static str> {
        let mut l = vec![];
        if self.legit_reuse > 0 && self.boundary_kept > 0 {
            l.push("nontrivial");
        }
        if self.legit_reuse > 0 {
            l.push("legit-reuse");
        }
        if self.boundary_kept > 0 {
            l.push("boundary-kept");
        }
        if self.immortal_kept > 0 {
            l.push("immortal-kept");
        }
        if self.durable_kept > 0 {
            l.push("durable-kept");
        }
        l
    }
}

pub fn spec_c09() -> PropSpec {
    let mut pf = Profile::base();
    pf.intern_shape = true;
    pf.durs = [5, 2, 2, 0];
    pf.sym_types = [4, 4, 4, 2];
    pf.sym_dom = 6;
    pf.max_ops = 4;
    pf.steps = [10, 6, 6, 0, 0, 0, 0, 2, 0];
    pf.set_dur_pct = 0;
    pf.max_steps = 40;
    pf.min_steps = 8;
    pf.sym_hash_pct = 30;
    PropSpec {
        id: "C09",
        profile: pf,
        tape_len: 500,
        make: || vec![Box::new(super::c06::Aux(Box::new(ValueOracle::new()))), Box::new(Retention::new())],
        nt_rule: "",
        engine: "seq",
        runner: None,
        decode: None,
    }
}


// ---------------------------------------------------------------------------------------------
// C08 (sequential part): interning is canonical within a revision, whoever interns — a query body
// or the top level — and whatever happened to the slot before (reclaimed, re-hashed, resized).
// ---------------------------------------------------------------------------------------------

#[derive(Default)]
pub struct Canon {
    /// (revision, type, data) -> handle
    by_data: std::collections::HashMap<(u32, u8, u32), u64>,
    /// (revision, type, handle) -> data
    by_id: std::collections::HashMap<(u32, u8, u64), u32>,
    reused: u32,
    reinterned_after_reuse: u32,
    reused_ids: std::collections::HashSet<u64>,
}

impl Canon {
    pub fn new() -> Self {
        Canon::default()
    }
    fn note(&mut self, rev: u32, ty: u8, data: u32, id: u64, idx: usize, out: &mut Vec<Violation>) {
        if self.reused_ids.contains(&id) {
            self.reinterned_after_reuse += 1;
        }
        if let Some(prev) = self.by_data.insert((rev, ty, data), id) {
            if prev != id {
                out.push(viol("interned-equal-data-two-handles", idx, format!("revision R{rev}: type {ty} data {data} has handles {prev:#x} and {id:#x}")));
            }
        }
        if let Some(prev) = self.by_id.insert((rev, ty, id), data) {
            if prev != data {
                out.push(viol("interned-one-handle-two-data", idx, format!("revision R{rev}: type {ty} handle {id:#x} stands for data {prev} and {data}")));
            }
        }
        // immortal values keep their handle for ever
        if ty == 3 {
            for r in (1..rev).rev().take(64) {
                if let Some(old) = self.by_data.get(&(r, ty, data)) {
                    if *old != id {
                        out.push(viol("interned-identity-not-kept", idx, format!("immortal type {ty} data {data}: handle {old:#x} in R{r}, {id:#x} in R{rev}")));
                    }
                    break;
                }
            }
        }
    }
}

impl Oracle for Canon {
    fn step(&mut self, cx: &StepCtx) -> Vec<Violation> {
        let mut out = vec![];
        for r in cx.recs {
            match r {
                Rec::Ev(_, Ev::DidReuseInterned(dk)) => {
                    self.reused += 1;
                    self.reused_ids.insert(dk.id);
                }
                Rec::End(rec) => {
                    for (ty, x, id, _) in &rec.interned {
                        self.note(cx.rev, *ty, *x, *id, cx.idx, &mut out);
                    }
                }
                _ => {}
            }
        }
        if let StepRes::Interned { real: Ok((ty, id, x)), .. } = cx.res {
            self.note(cx.rev, *ty, *x, *id, cx.idx, &mut out);
        }
        out
    }
    fn labels(&self) -> Vec<&'static str> {
        let mut l = vec![];
        if self.reused > 0 {
            l.push("slot-reclaimed");
        }
        if self.reinterned_after_reuse > 0 {
            l.push("nontrivial");
            l.push("value-in-reclaimed-slot-interned-again");
        }
        l
    }
}

pub fn spec_c08() -> PropSpec {
    let mut s = spec_c09();
    s.id = "C08";
    s.profile.sym_hash_pct = 60;
    s.profile.sym_dom = 8;
    s.make = || vec![Box::new(super::c06::Aux(Box::new(ValueOracle::new()))), Box::new(Canon::new())];
    s
}

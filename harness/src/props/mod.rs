//! One oracle per property: pure functions over (Program, History, model, log).

use crate::prog::*;
use crate::refm::*;
use crate::seq::*;
use crate::world::*;

pub mod c02;
pub mod c03;
pub mod c04;
pub mod c05;
pub mod c06;
pub mod c09;
pub mod c10;
pub mod c19;
pub mod c26;
pub mod cyc;
pub mod value;

pub use value::ValueOracle;

/// Everything the driver needs to know about one property's check.
pub struct PropSpec {
    pub id: &'static str,
    pub profile: Profile,
    pub tape_len: usize,
    pub make: fn() -> Vec<Box<dyn Oracle>>,
    pub nt_rule: &'static str,
    /// engine name recorded in summaries and replay files
    pub engine: &'static str,
    /// custom per-case runner (engines other than plain `seq`); `None` = run_seq with `make()`
    pub runner: Option<fn(&PropSpec, &Case) -> SeqOutcome>,
    /// custom tape decoder; `None` = `gen_case(tape, profile)`
    pub decode: Option<fn(&[u32]) -> Case>,
}

pub fn spec(id: &str) -> Option<PropSpec> {
    match id {
        "C01" => Some(value::spec_c01()),
        "C02" => Some(c02::spec_c02()),
        "C03" => Some(c03::spec_c03()),
        "C04" => Some(c04::spec_c04()),
        "C05" => Some(c05::spec_c05()),
        "C06" => Some(c06::spec_c06()),
        "C07" => Some(c06::spec_c07()),
        "C08" => Some(c09::spec_c08()),
        "C09" => Some(c09::spec_c09()),
        "C10" => Some(c10::spec_c10()),
        "C11" => Some(c10::spec_c11()),
        "C12" => Some(cyc::spec_c12()),
        "C13" => Some(cyc::spec_c13()),
        "C14" => Some(cyc::spec_c14()),
        "C15" => Some(cyc::spec_c15()),
        "C26" => Some(c26::spec_c26()),
        _ => None,
    }
}

/// spec of one part of a property's check, selected by engine name
pub fn spec_for(id: &str, engine: &str) -> Option<PropSpec> {
    match (id, engine) {
        ("C22", "fault") => Some(cyc::spec_c22_acyclic()),
        ("C22", "faultlat") => Some(cyc::spec_c22_lattice()),
        ("C03", "seqdur") => Some(c03::spec_c03_dur()),
        ("C04", "seqlat") => Some(c04::spec_c04_lat()),
        ("C23", "mem") => Some(crate::memsafe::spec_c23_mem()),
        (_, "seq") => spec(id),
        _ => None,
    }
}

pub fn all_ids() -> Vec<&'static str> {
    vec!["C01", "C02", "C03", "C04", "C05", "C06", "C07", "C09", "C10", "C11", "C12", "C13", "C14", "C15"]
}

pub(crate) fn viol(rule: &str, step: usize, detail: String) -> Violation {
    Violation { rule: rule.to_string(), step, detail }
}

#[allow(unused)]
pub(crate) fn unused(_: &Got, _: &ROut, _: &Program) {}

//! One oracle per property: pure functions over (Program, History, model, log).

use crate::prog::*;
use crate::refm::*;
use crate::seq::*;
use crate::world::*;

pub mod value;

pub use value::ValueOracle;

/// Everything the driver needs to know about one property's check.
pub struct PropSpec {
    pub id: &'static str,
    pub profile: Profile,
    pub tape_len: usize,
    pub make: fn() -> Vec<Box<dyn Oracle>>,
    pub nt_rule: &'static str,
}

pub fn spec(id: &str) -> Option<PropSpec> {
    match id {
        "C01" => Some(value::spec_c01()),
        _ => None,
    }
}

pub fn all_ids() -> Vec<&'static str> {
    vec!["C01"]
}

pub(crate) fn viol(rule: &str, step: usize, detail: String) -> Violation {
    Violation { rule: rule.to_string(), step, detail }
}

#[allow(unused)]
pub(crate) fn unused(_: &Got, _: &ROut, _: &Program) {}

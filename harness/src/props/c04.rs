//! C04 — untracked reads: a function whose last execution read untracked state re-executes the
//! first time it or a dependant is requested in each later revision ("reached => executed").

use std::collections::HashMap;

use super::*;
use crate::obs::*;

#[derive(Default)]
pub struct Untracked {
    /// last completed execution per key: (revision, read untracked state, cells read)
    last: HashMap<LKey, (u32, bool)>,
    /// revisions in which a cell read by some untracked node changed, followed by a Get of a
    /// dependant only
    cell_changed_since: bool,
    dependant_gets_after_change: u32,
    revs_with_dependant_get: Vec<u32>,
    equal_after_reexec: u32,
    prev_out: HashMap<LKey, OutRepr>,
}

impl Untracked {
    pub fn new() -> Self {
        Self::default()
    }
}

impl Oracle for Untracked {
    fn step(&mut self, cx: &StepCtx) -> Vec<Violation> {
        let mut out = vec![];
        if let Step::SetCell { cell, val, .. } = cx.step {
            if cx.model_before.cells[*cell as usize] != *val {
                self.cell_changed_since = true;
            }
        }
        for r in cx.recs {
            if let Rec::End(rec) = r {
                if rec.untracked {
                    if self.prev_out.get(&rec.key) == Some(&rec.out) {
                        self.equal_after_reexec += 1;
                    }
                    self.prev_out.insert(rec.key, rec.out.clone());
                }
                self.last.insert(rec.key, (cx.rev, rec.untracked));
            }
        }
        if let (StepRes::Got { key, real: Ok(_), .. }, Some(ev)) = (cx.res, cx.eval) {
            let mut reached_untracked_other = false;
            for k in &ev.call_seq {
                if let RKey::Node(n, a) = k {
                    let lk = LKey::Node(*n, *a);
                    if let Some((rev, untracked)) = self.last.get(&lk) {
                        if *untracked {
                            if (*n, *a) != *key {
                                reached_untracked_other = true;
                            }
                            if *rev < cx.rev {
                                out.push(viol(
                                    "untracked-not-reexecuted",
                                    cx.idx,
                                    format!("get{key:?} in R{} reaches {lk:?} whose last execution (R{rev}) read untracked state, but it was not re-executed", cx.rev),
                                ));
                            }
                        }
                    }
                }
            }
            if reached_untracked_other && self.cell_changed_since {
                self.dependant_gets_after_change += 1;
                if !self.revs_with_dependant_get.contains(&cx.rev) {
                    self.revs_with_dependant_get.push(cx.rev);
                }
            }
        }
        out
    }

    fn labels(&self) -> Vec<&'static str> {
        let mut l = vec![];
        if self.revs_with_dependant_get.len() >= 2 {
            l.push("nontrivial");
        }
        if self.dependant_gets_after_change > 0 {
            l.push("dependant-get-after-cell-change");
        }
        if self.equal_after_reexec > 0 {
            l.push("untracked-reexec-equal-value");
        }
        l
    }
}

pub fn spec_c04() -> PropSpec {
    let mut pf = Profile::base();
    pf.durs = [1, 0, 0, 0];
    pf.max_cells = 2;
    pf.ops = [5, 7, 3, 2, 2, 1, 0, 0, 2, 1, 1, 6, 0];
    pf.special_ops = [4, 3, 2, 0, 4, 0, 0, 0, 0, 4, 0, 0, 0];
    pf.steps = [10, 4, 2, 7, 0, 0, 0, 0, 0];
    pf.set_durs = [1, 1, 1, 0];
    PropSpec {
        id: "C04",
        profile: pf,
        tape_len: 400,
        make: || vec![Box::new(super::c06::Aux(Box::new(ValueOracle::new()))), Box::new(super::c06::Aux(Box::new(super::c03::Justify::new()))), Box::new(Untracked::new())],
        nt_rule: "",
        engine: "seq",
        runner: None,
        decode: None,
    }
}


/// C04 inside fixpoint cycles: max-plus programs whose functions read untracked cells only while
/// their accumulated value is still small (typically in the first iterations), histories that
/// change the cells. The final value of a cycle can depend on a cell that its last iteration did
/// not read; the reference is the least fixpoint for the current cells.
pub fn spec_c04_lat() -> PropSpec {
    let mut pf = Profile::base();
    pf.lattice = true;
    pf.maxplus_pct = 100;
    pf.durs = [6, 1, 1, 0];
    pf.max_slots = 2;
    pf.max_cells = 2;
    pf.steps = [10, 4, 1, 7, 0, 0, 0, 0, 1];
    pf.max_steps = 24;
    pf.min_steps = 4;
    pf.episode_pct = 8;
    PropSpec {
        id: "C04",
        profile: pf,
        tape_len: 300,
        make: || vec![Box::new(LostUntrackedKf::new(Box::new(super::cyc::CycKf::new(Box::new(ValueOracle::new())))))],
        nt_rule: "",
        engine: "seqlat",
        runner: None,
        decode: None,
    }
}


/// Listed finding cyc-kf3: a function inside a fixpoint cycle reads untracked state (in any
/// iteration). Every function with cycle recovery that takes part in the cycle (heads and plain
/// members alike) stores flattened dependencies: the edges of everything it reached, but not the
/// untracked flags of those functions. Such a function other than the reader is therefore
/// validated in later revisions although the untracked state changed. (The reader's own memo
/// keeps the flag, also from an early iteration to the final one when it is a head itself.)
/// Signature, from the body log of one step in which a cycle was iterated: some function
/// completed an execution with an untracked read and some other function with cycle recovery
/// completed an execution.
pub const KF_LOST_UNTRACKED: &str = "kf:untracked-read-of-cycle-member-in-early-iteration-forgotten";

pub struct LostUntrackedKf {
    inner: Box<dyn Oracle>,
    tainted: bool,
    early_only_head: u32,
}

impl LostUntrackedKf {
    pub fn new(inner: Box<dyn Oracle>) -> Self {
        LostUntrackedKf { inner, tainted: false, early_only_head: 0 }
    }
}

impl Oracle for LostUntrackedKf {
    fn step(&mut self, cx: &StepCtx) -> Vec<Violation> {
        let mut heads: std::collections::BTreeSet<LKey> = Default::default();
        let mut runs: std::collections::BTreeMap<LKey, Vec<bool>> = Default::default();
        for r in cx.recs {
            match r {
                Rec::Ev(_, Ev::WillIterate(dk, _)) | Rec::Ev(_, Ev::DidFinalize(dk, _)) => {
                    if let Some(l) = cx.ix.dk2l.get(dk) {
                        heads.insert(*l);
                    }
                }
                Rec::End(rec) => runs.entry(rec.key).or_default().push(rec.untracked),
                _ => {}
            }
        }
        // every function that completed an iteration as a cycle head, nested heads included
        // (guarded trace hook in `try_complete_cycle_head`)
        for h in cx.hooks {
            if let salsa::verif_hooks::TraceEvent::CycleHead { ingredient, key, .. } = h {
                for (dk, l) in cx.ix.dk2l.iter() {
                    if dk.id == *key && format!("{:?}", dk.ing) == format!("IngredientIndex({ingredient})") {
                        heads.insert(*l);
                    }
                }
            }
        }
        for (k, v) in &runs {
            let early_only = v.len() >= 2 && v[..v.len() - 1].iter().any(|u| *u) && !v[v.len() - 1];
            if heads.contains(k) && early_only {
                self.early_only_head += 1;
            }
            // a function read untracked state while a cycle was iterated in which some OTHER
            // function with cycle recovery ran: that function's flattened dependencies do not
            // carry the flag
            let other_recovering = runs.keys().any(|o| o != k && matches!(o, LKey::Node(n, _) if matches!(cx.case.prog.nodes[*n as usize].kind, Kind::Fix | Kind::FixJoin | Kind::Fall | Kind::Div)));
            if v.iter().any(|u| *u) && !heads.is_empty() && other_recovering {
                self.tainted = true;
            }
        }
        let mut v = self.inner.step(cx);
        if self.tainted {
            for x in v.iter_mut() {
                if x.rule == "value-mismatch" {
                    x.rule = KF_LOST_UNTRACKED.to_string();
                }
            }
        }
        v
    }
    fn finish(&mut self, case: &Case, ix: &Index) -> Vec<Violation> {
        self.inner.finish(case, ix)
    }
    fn labels(&self) -> Vec<&'static str> {
        let mut l = self.inner.labels();
        if self.tainted {
            l.push("kf-untracked-read-of-member-in-early-iteration");
        }
        if self.early_only_head > 0 {
            l.push("head-read-untracked-state-in-early-iteration-only");
        }
        l
    }
}

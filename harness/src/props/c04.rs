//! C04 — untracked reads: a function whose last execution read untracked state re-executes the
//! first time it or a dependant is requested in each later revision ("reached => executed").

use std::collections::HashMap;

use super::*;
use crate::obs::*;

#[derive(Default)]
pub struct Untracked {
    /// last completed execution per key: (revision, read untracked state, cells read)
    last: HashMap<LKey, (u32, bool)>,
    /// revisions in which a cell read by some untracked node changed, followed by a Get of a
    /// dependant only
    cell_changed_since: bool,
    dependant_gets_after_change: u32,
    revs_with_dependant_get: Vec<u32>,
    equal_after_reexec: u32,
    prev_out: HashMap<LKey, OutRepr>,
}

impl Untracked {
    pub fn new() -> Self {
        Self::default()
    }
}

impl Oracle for Untracked {
    fn step(&mut self, cx: &StepCtx) -> Vec<Violation> {
        let mut out = vec![];
        if let Step::SetCell { cell, val, .. } = cx.step {
            if cx.model_before.cells[*cell as usize] != *val {
                self.cell_changed_since = true;
            }
        }
        for r in cx.recs {
            if let Rec::End(rec) = r {
                if rec.untracked {
                    if self.prev_out.get(&rec.key) == Some(&rec.out) {
                        self.equal_after_reexec += 1;
                    }
                    self.prev_out.insert(rec.key, rec.out.clone());
                }
                self.last.insert(rec.key, (cx.rev, rec.untracked));
            }
        }
        if let (StepRes::Got { key, real: Ok(_), .. }, Some(ev)) = (cx.res, cx.eval) {
            let mut reached_untracked_other = false;
            for k in &ev.call_seq {
                if let RKey::Node(n, a) = k {
                    let lk = LKey::Node(*n, *a);
                    if let Some((rev, untracked)) = self.last.get(&lk) {
                        if *untracked {
                            if (*n, *a) != *key {
                                reached_untracked_other = true;
                            }
                            if *rev < cx.rev {
                                out.push(viol(
                                    "untracked-not-reexecuted",
                                    cx.idx,
                                    format!("get{key:?} in R{} reaches {lk:?} whose last execution (R{rev}) read untracked state, but it was not re-executed", cx.rev),
                                ));
                            }
                        }
                    }
                }
            }
            if reached_untracked_other && self.cell_changed_since {
                self.dependant_gets_after_change += 1;
                if !self.revs_with_dependant_get.contains(&cx.rev) {
                    self.revs_with_dependant_get.push(cx.rev);
                }
            }
        }
        out
    }

    fn labels(&self) -> Vec<&'static str> {
        let mut l = vec![];
        if self.revs_with_dependant_get.len() >= 2 {
            l.push("nontrivial");
        }
        if self.dependant_gets_after_change > 0 {
            l.push("dependant-get-after-cell-change");
        }
        if self.equal_after_reexec > 0 {
            l.push("untracked-reexec-equal-value");
        }
        l
    }
}

pub fn spec_c04() -> PropSpec {
    let mut pf = Profile::base();
    pf.durs = [1, 0, 0, 0];
    pf.max_cells = 2;
    pf.ops = [5, 7, 3, 2, 2, 1, 0, 0, 2, 1, 1, 6, 0];
    pf.special_ops = [4, 3, 2, 0, 4, 0, 0, 0, 0, 4, 0, 0, 0];
    pf.steps = [10, 4, 2, 7, 0, 0, 0, 0, 0];
    pf.set_durs = [1, 1, 1, 0];
    PropSpec {
        id: "C04",
        profile: pf,
        tape_len: 400,
        make: || vec![Box::new(super::c06::Aux(Box::new(ValueOracle::new()))), Box::new(super::c06::Aux(Box::new(super::c03::Justify::new()))), Box::new(Untracked::new())],
        nt_rule: "",
        engine: "seq",
        runner: None,
        decode: None,
    }
}

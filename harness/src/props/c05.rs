//! C05 — LRU: transparent (value oracle), bounded (model of the recency list + live tokens),
//! dependency information kept (justification predicate; evicted values re-run only when called).

use std::collections::HashMap;

use super::*;
use crate::obs::*;

pub struct LruModel {
    /// recency list, least recently used first
    l: Vec<LKey>,
    cap: usize,
    /// last completed execution read untracked state
    untracked: HashMap<LKey, bool>,
    has_value: HashMap<LKey, bool>,
    open: HashMap<u32, Vec<LKey>>,
    live_before: Vec<Vec<usize>>,
    // stats
    evictions: u32,
    evicted_requested_later: u32,
    evicted_keys: Vec<LKey>,
    cap_changes: u32,
    cap0: u32,
    dependant_after_evict: u32,
}

impl LruModel {
    pub fn new() -> Self {
        LruModel {
            l: vec![],
            cap: 4,
            untracked: HashMap::new(),
            has_value: HashMap::new(),
            open: HashMap::new(),
            live_before: vec![],
            evictions: 0,
            evicted_requested_later: 0,
            evicted_keys: vec![],
            cap_changes: 0,
            cap0: 0,
            dependant_after_evict: 0,
        }
    }
    fn is_lru(prog: &Program, k: &LKey) -> bool {
        matches!(k, LKey::Node(n, _) if prog.nodes[*n as usize].kind == Kind::Lru)
    }
    fn touch(&mut self, k: LKey) {
        if self.cap == 0 {
            return;
        }
        self.l.retain(|x| *x != k);
        self.l.push(k);
    }
}

impl Oracle for LruModel {
    fn step(&mut self, cx: &StepCtx) -> Vec<Violation> {
        let mut out = vec![];
        let prog = &cx.case.prog;
        let live = |k: &LKey| match k {
            LKey::Node(n, a) => cx.world.live(*n, *a),
            _ => 1,
        };
        // 1. uses and executions during this step, in log order
        for r in cx.recs {
            match r {
                Rec::Used(k, _) if Self::is_lru(prog, k) => {
                    if self.evicted_keys.contains(k) {
                        self.evicted_requested_later += 1;
                    }
                    self.touch(*k);
                }
                Rec::Used(k, _) => {
                    // a dependant of an evicted key requested after the eviction
                    if let Some(e) = cx.ix.last_exec.get(k).and_then(|i| cx.ix.execs[*i].rec.as_ref()) {
                        if e.calls.iter().any(|c| self.evicted_keys.contains(c)) {
                            self.dependant_after_evict += 1;
                        }
                    }
                }
                Rec::Start(k, tid) => {
                    // an evicted value is recomputed only when it is *called*: the innermost open
                    // execution must be its caller (checked at the caller's End), or it is the
                    // top-level request itself
                    if Self::is_lru(prog, k) {
                        let evicted = self.has_value.get(k) == Some(&false);
                        if evicted {
                            let parent = self.open.get(tid).and_then(|s| s.last()).copied();
                            let top_is_me = matches!(cx.res, StepRes::Got { key, .. } | StepRes::Acc { key, .. } if LKey::Node(key.0, key.1) == *k);
                            if parent.is_none() && !top_is_me {
                                out.push(viol(
                                    "evicted-recomputed-without-request",
                                    cx.idx,
                                    format!("{k:?} was evicted and re-executed although nothing requested it (step {:?})", cx.step),
                                ));
                            }
                        }
                    }
                    self.open.entry(*tid).or_default().push(*k);
                }
                Rec::End(rec) => {
                    if let Some(s) = self.open.get_mut(&rec.tid) {
                        while let Some(k) = s.pop() {
                            if k == rec.key {
                                break;
                            }
                        }
                    }
                    if Self::is_lru(prog, &rec.key) {
                        self.untracked.insert(rec.key, rec.untracked);
                        self.has_value.insert(rec.key, true);
                    }
                }
                _ => {}
            }
        }
        if matches!(cx.res, StepRes::Got { real: Err(_), .. } | StepRes::Acc { real: Err(_), .. }) {
            self.open.clear();
        }
        // 2. capacity changes
        if let Step::LruCap { cap, .. } = cx.step {
            self.cap = *cap as usize;
            self.cap_changes += 1;
            if self.cap == 0 {
                self.l.clear();
                self.cap0 += 1;
            }
        }
        // 3. eviction points: every new revision and explicit eviction
        let eviction_point = cx.rev > cx.rev_before || matches!(cx.step, Step::Evict);
        if eviction_point && self.cap > 0 {
            let before: Vec<LKey> = self.l.clone();
            let mut popped = vec![];
            while self.l.len() > self.cap {
                popped.push(self.l.remove(0));
            }
            if !popped.is_empty() {
                self.evictions += 1;
            }
            for k in &popped {
                let tracked = !self.untracked.get(k).copied().unwrap_or(true);
                if tracked && live(k) != 0 {
                    out.push(viol("lru-not-evicted", cx.idx, format!("{k:?} is the least recently requested of {} (cap {}), but its value is still cached", before.len(), self.cap)));
                }
                if tracked {
                    self.has_value.insert(*k, false);
                    if !self.evicted_keys.contains(k) {
                        self.evicted_keys.push(*k);
                    }
                }
            }
            for k in &self.l {
                if self.has_value.get(k).copied().unwrap_or(false) && live(k) == 0 {
                    out.push(viol("lru-evicted-recent", cx.idx, format!("{k:?} is among the {} most recently requested (cap {}) but its value was discarded", self.l.len(), self.cap)));
                }
            }
            let cached = before.iter().filter(|k| live(k) > 0 && !self.untracked.get(k).copied().unwrap_or(true)).count();
            if cached > self.cap {
                out.push(viol("lru-bound-exceeded", cx.idx, format!("{cached} fully tracked results cached after eviction, capacity {}", self.cap)));
            }
        }
        self.live_before = (0..prog.nodes.len()).map(|n| (0..prog.nodes[n].nargs).map(|a| cx.world.live(n as u8, a)).collect()).collect();
        out
    }

    fn labels(&self) -> Vec<&'static str> {
        let mut l = vec![];
        if self.evictions > 0 && self.evicted_requested_later > 0 && self.dependant_after_evict > 0 {
            l.push("nontrivial");
        }
        if self.evictions > 0 {
            l.push("eviction");
        }
        if self.evicted_requested_later > 0 {
            l.push("evicted-then-requested");
        }
        if self.dependant_after_evict > 0 {
            l.push("dependant-after-evict");
        }
        if self.cap_changes > 0 {
            l.push("cap-change");
        }
        if self.cap0 > 0 {
            l.push("cap-zero");
        }
        if self.untracked.values().any(|u| *u) {
            l.push("untracked-lru");
        }
        l
    }
}

pub fn spec_c05() -> PropSpec {
    let mut pf = Profile::base();
    pf.durs = [1, 0, 0, 0];
    pf.kinds = [4, 1, 1, 1, 1, 8, 0, 0, 0, 0];
    pf.lru_nargs = 10;
    pf.max_nargs = 3;
    pf.ops = [6, 8, 3, 1, 1, 1, 0, 0, 1, 1, 1, 1, 0];
    pf.steps = [14, 4, 2, 1, 0, 2, 2, 0, 0];
    pf.max_steps = 40;
    pf.min_steps = 8;
    PropSpec {
        id: "C05",
        profile: pf,
        tape_len: 500,
        make: || vec![Box::new(super::c06::Aux(Box::new(ValueOracle::new()))), Box::new(super::c06::Aux(Box::new(super::c03::Justify::new()))), Box::new(LruModel::new())],
        nt_rule: "",
        engine: "seq",
        runner: None,
        decode: None,
    }
}

//! C02 — durabilities. The value oracle decides (values == reference; frozen writes panic and
//! leave results unchanged); `DurStats` only measures which cases exercised the shallow
//! (durability) shortcut, durability decreases and rejected never-change writes.

use std::collections::HashMap;

use super::*;

#[derive(Default)]
pub struct DurStats {
    /// (revision, durability reported by the write = the field's durability before it)
    writes: Vec<(u32, D)>,
    last_get: HashMap<(u8, u8), u32>,
    eligible: u32,
    decreased: u32,
    increased: u32,
    rejected: u32,
    high_writes: u32,
    gets_after_reject: u32,
}

impl DurStats {
    pub fn new() -> Self {
        Self::default()
    }
}

impl Oracle for DurStats {
    fn step(&mut self, cx: &StepCtx) -> Vec<Violation> {
        match (cx.step, cx.res) {
            (Step::Set { slot, field, dur, .. }, StepRes::Write { real, expect_panic }) => {
                let before = cx.model_before.vals[*slot as usize][*field as usize].1;
                if *expect_panic && real.is_err() {
                    self.rejected += 1;
                } else if real.is_ok() {
                    self.writes.push((cx.rev, before));
                    if before > D::Low {
                        self.high_writes += 1;
                    }
                    if let Some(d) = dur {
                        if *d < before {
                            self.decreased += 1;
                        }
                        if *d > before {
                            self.increased += 1;
                        }
                    }
                }
            }
            (Step::Synth { dur } | Step::SetCell { dur, .. }, StepRes::Write { real, expect_panic }) => {
                if *expect_panic && real.is_err() {
                    self.rejected += 1;
                } else if real.is_ok() {
                    self.writes.push((cx.rev, *dur));
                    if *dur > D::Low {
                        self.high_writes += 1;
                    }
                }
            }
            (Step::Get { .. }, StepRes::Got { key, real: Ok(_), .. }) => {
                if self.rejected > 0 {
                    self.gets_after_reject += 1;
                }
                if let (Some(ev), Some(prev)) = (cx.eval, self.last_get.get(key)) {
                    // durability of the key = min over every field read by anything it evaluates
                    let mut dmin = D::Never;
                    for r in ev.memo.values() {
                        if r.untracked {
                            dmin = D::Low;
                        }
                        for (s, f) in &r.reads {
                            dmin = dmin.min(cx.model.vals[*s as usize][*f as usize].1);
                        }
                    }
                    let between: Vec<D> = self.writes.iter().filter(|(r, _)| *r > *prev && *r <= cx.rev).map(|(_, d)| *d).collect();
                    if !between.is_empty() && dmin > D::Low && between.iter().all(|d| *d < dmin) {
                        self.eligible += 1;
                    }
                }
                self.last_get.insert(*key, cx.rev);
            }
            _ => {}
        }
        vec![]
    }

    fn labels(&self) -> Vec<&'static str> {
        let mut l = vec![];
        if self.eligible > 0 && self.high_writes > 0 {
            l.push("nontrivial");
        }
        if self.eligible > 0 {
            l.push("shallow-shortcut-eligible");
        }
        if self.decreased > 0 {
            l.push("durability-decrease");
        }
        if self.increased > 0 {
            l.push("durability-increase");
        }
        if self.rejected > 0 {
            l.push("never-change-write-rejected");
        }
        if self.gets_after_reject > 0 {
            l.push("get-after-rejected-write");
        }
        l
    }
}

pub fn spec_c02() -> PropSpec {
    let mut pf = Profile::base();
    pf.durs = [3, 2, 2, 1];
    pf.set_dur_pct = 60;
    pf.set_durs = [3, 3, 3, 1];
    pf.steps = [9, 7, 2, 1, 0, 0, 0, 1, 1];
    pf.max_steps = 30;
    PropSpec {
        id: "C02",
        profile: pf,
        tape_len: 450,
        make: || vec![Box::new(super::c06::Aux(Box::new(ValueOracle::new()))), Box::new(DurStats::new())],
        nt_rule: "",
        engine: "seq",
        runner: None,
        decode: None,
    }
}

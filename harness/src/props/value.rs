//! The value oracle (C01, and the (a) clause of most other properties): every returned value,
//! struct field and interned field equals the reference interpreter's from-scratch evaluation;
//! writes panic exactly when the model says the field is frozen.

use super::*;
use crate::obs::*;

#[derive(Default)]
pub struct ValueOracle {
    writes: u32,
    gets_after_write: u32,
    saw_reuse_and_exec: bool,
    feature: bool,
    backdated: u32,
    pub check_acc_exact: bool,
    /// compare handle identities inside one result (off for C26)
    pub check_identity: bool,
}

impl ValueOracle {
    pub fn new() -> Self {
        ValueOracle { check_acc_exact: true, check_identity: true, ..Default::default() }
    }
}

fn has_feature(ops: &[Op]) -> bool {
    ops.iter().any(|o| match o {
        Op::If { then, els, .. } => true || has_feature(then) || has_feature(els),
        Op::NewEnt { .. } | Op::Intern { .. } | Op::Untracked { .. } => true,
        _ => false,
    })
}

impl Oracle for ValueOracle {
    fn step(&mut self, cx: &StepCtx) -> Vec<Violation> {
        let mut out = vec![];
        if cx.idx == 0 {
            self.feature = cx.case.prog.nodes.iter().any(|n| has_feature(&n.body));
        }
        match cx.res {
            StepRes::Got { key, real, want } => {
                match (real, want) {
                    (_, Err(RPanic::Either)) => {}
                    (Err(_), Err(RPanic::EitherValue(_))) => {}
                    (Ok(g), Err(RPanic::EitherValue(v))) => {
                        if g.v != *v {
                            out.push(viol("value-mismatch", cx.idx, format!("get{key:?}: value {} != reference {v} (a cycle through functions with and without recovery that does not panic must yield the least fixpoint)", g.v)));
                        }
                    }
                    (Err(p), Err(RPanic::Cycle)) => {
                        let t = p.text();
                        if !(t.contains("dependency graph cycle") || t.contains("PropagatedPanic")) {
                            out.push(viol("wrong-panic", cx.idx, format!("get{key:?}: {t} (expected a cycle panic)")));
                        }
                    }
                    (Err(p), Err(RPanic::Diverge)) => {
                        let t = p.text();
                        if !(t.contains("too many cycle iterations") || t.contains("PropagatedPanic")) {
                            out.push(viol("wrong-panic", cx.idx, format!("get{key:?}: {t} (expected the bounded-iteration panic)")));
                        }
                    }
                    (Ok(g), Ok(w)) => {
                        if let Err(e) = got_matches_opts(g, w, self.check_identity) {
                            out.push(viol("value-mismatch", cx.idx, format!("get{key:?}: {e}")));
                        }
                    }
                    (Err(p), Ok(_)) => out.push(viol("unexpected-panic", cx.idx, format!("get{key:?}: {}", p.text()))),
                    (Ok(g), Err(rp)) => out.push(viol("missing-panic", cx.idx, format!("get{key:?}: returned {} but reference expects {rp:?}", g.v))),
                    (Err(p), Err(RPanic::SpecifyTwice)) => {
                        if !p.text().contains("cannot call `specify` twice") {
                            out.push(viol("wrong-panic", cx.idx, format!("get{key:?}: {} (expected specify-twice)", p.text())));
                        }
                    }
                    (Err(p), Err(RPanic::SpecifyForeign)) => {
                        if !p.text().contains("can only use `specify` on salsa structs created during the current tracked fn") {
                            out.push(viol("wrong-panic", cx.idx, format!("get{key:?}: {} (expected specify-foreign)", p.text())));
                        }
                    }
                    (Err(_), Err(_)) => {}
                }
                if self.writes > 0 {
                    self.gets_after_write += 1;
                    let v = cx.recs.iter().any(|r| matches!(r, Rec::Ev(_, Ev::DidValidate(_))));
                    let e = cx.recs.iter().any(|r| matches!(r, Rec::Ev(_, Ev::WillExecute(_))));
                    if v && e {
                        self.saw_reuse_and_exec = true;
                    }
                }
            }
            StepRes::Acc { key, real, want } => match (real, want) {
                (Ok(g), Ok(w)) => {
                    let ok = if self.check_acc_exact {
                        g == w
                    } else {
                        let (mut a, mut b) = (g.clone(), w.clone());
                        a.sort();
                        b.sort();
                        a == b
                    };
                    if !ok {
                        out.push(viol("accumulated-mismatch", cx.idx, format!("acc{key:?}: {g:x?} != reference {w:x?}")));
                    }
                }
                (Err(p), Ok(_)) => out.push(viol("unexpected-panic", cx.idx, format!("acc{key:?}: {}", p.text()))),
                (Ok(_), Err(rp)) => out.push(viol("missing-panic", cx.idx, format!("acc{key:?}: reference expects {rp:?}"))),
                (Err(_), Err(_)) => {}
            },
            StepRes::Write { real, expect_panic } => {
                self.writes += 1;
                match (real, expect_panic) {
                    (Ok(()), true) => out.push(viol("frozen-write-accepted", cx.idx, format!("{:?} did not panic", cx.step))),
                    (Err(p), false) => out.push(viol("unexpected-panic", cx.idx, format!("{:?}: {}", cx.step, p.text()))),
                    (Err(p), true) => {
                        if !p.text().contains("never-changing inputs cannot be mutated") {
                            out.push(viol("wrong-panic", cx.idx, format!("{:?}: {}", cx.step, p.text())));
                        }
                    }
                    (Ok(()), false) => {}
                }
            }
            StepRes::Interned { real, want } => match real {
                Ok(real) => {
                    if (real.0, real.2) != *want {
                        out.push(viol("interned-readback", cx.idx, format!("interned {want:?} read back {real:?}")));
                    }
                }
                Err(p) => out.push(viol("unexpected-panic", cx.idx, format!("{:?}: {}", cx.step, p.text()))),
            },
            StepRes::Maint { real } => {
                if let Err(p) = real {
                    out.push(viol("unexpected-panic", cx.idx, format!("{:?}: {}", cx.step, p.text())));
                }
            }
            StepRes::Snap { real } => {
                if let Err(p) = real {
                    out.push(viol("snapshot-roundtrip-failed", cx.idx, p.text()));
                }
            }
            StepRes::Other => {}
        }
        // count backdated executions: an execution whose value equals its previous one
        for r in cx.recs {
            if let Rec::End(rec) = r {
                let prev = cx.ix.execs.iter().rev().filter(|e| e.key == rec.key && e.rec.is_some()).nth(1);
                if let Some(p) = prev {
                    if p.rec.as_ref().unwrap().out == rec.out {
                        self.backdated += 1;
                    }
                }
            }
        }
        out
    }

    fn labels(&self) -> Vec<&'static str> {
        let mut l = vec![];
        if self.saw_reuse_and_exec && self.feature {
            l.push("nontrivial");
        }
        if self.saw_reuse_and_exec {
            l.push("reuse+exec");
        }
        if self.backdated > 0 {
            l.push("backdated-exec");
        }
        if self.writes > 0 {
            l.push("has-write");
        }
        l
    }
}

pub fn spec_c01() -> PropSpec {
    let mut pf = Profile::base();
    pf.durs = [5, 2, 2, 0];
    pf.coarse_hash_pct = 25;
    pf.sym_hash_pct = 25;
    PropSpec {
        id: "C01",
        profile: pf,
        tape_len: 400,
        make: || vec![Box::new(ValueOracle::new())],
        nt_rule: "case has >=1 write followed by a Get whose log shows both DidValidateMemoizedValue and WillExecute, and the program contains If/NewEnt/Intern/Untracked",
        engine: "seq",
        runner: None,
        decode: None,
    }
}

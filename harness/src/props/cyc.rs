//! C12–C15 — cyclic programs. The value oracle compares against the lattice reference
//! (src/lat.rs: Kleene least fixpoint, SCC fallback pinning, cycle/divergence predicates);
//! `CycStats` enforces the iteration bound and measures the non-trivial classes.

use std::collections::BTreeSet;

use super::*;
use crate::lat::*;
use crate::obs::*;

#[derive(Default)]
pub struct CycStats {
    pub which: u8,
    entries: BTreeSet<(u32, u8)>,
    first_member_requested: BTreeSet<u8>,
    scc2: u32,
    nested: u32,
    max_iter: u8,
    cyc_to_noncyc: u32,
    was_cyclic: BTreeSet<u8>,
    was_noncyclic_after: u32,
    entry_members_per_cycle: Vec<(BTreeSet<u8>, BTreeSet<u8>)>,
    panics: u32,
    ok_after_panic: u32,
    recovered_nodes: u32,
    panicked_nodes: BTreeSet<u8>,
    last_rev_first: u32,
}

impl CycStats {
    pub fn new(which: u8) -> Self {
        CycStats { which, last_rev_first: u32::MAX, ..Default::default() }
    }
}

impl Oracle for CycStats {
    fn step(&mut self, cx: &StepCtx) -> Vec<Violation> {
        let mut out = vec![];
        for r in cx.recs {
            if let Rec::Ev(_, Ev::WillIterate(_, it)) = r {
                self.max_iter = self.max_iter.max(*it);
                if *it > 200 {
                    out.push(viol("iteration-bound-exceeded", cx.idx, format!("WillIterateCycle iteration {it} > 200")));
                }
            }
        }
        if let StepRes::Got { key, real, want } = cx.res {
            let lat = Lat::new(&cx.case.prog, cx.model);
            let cycles = lat.cycles();
            let reach = lat.reach(key.0);
            let cyclic: BTreeSet<u8> = cycles.iter().flatten().copied().collect();
            for c in &cycles {
                if c.iter().any(|x| reach.contains(x)) {
                    if c.len() >= 2 {
                        self.scc2 += 1;
                    }
                    // entry member = first member of this cycle requested in this revision
                    if c.contains(&key.0) && self.last_rev_first != cx.rev {
                        self.last_rev_first = cx.rev;
                        self.first_member_requested.insert(key.0);
                        match self.entry_members_per_cycle.iter_mut().find(|(s, _)| s == c) {
                            Some((_, e)) => {
                                e.insert(key.0);
                            }
                            None => self.entry_members_per_cycle.push((c.clone(), [key.0].into_iter().collect())),
                        }
                    }
                }
            }
            // a node that was in a cycle earlier and is outside all cycles now
            for n in &reach {
                if cyclic.contains(n) {
                    self.was_cyclic.insert(*n);
                } else if self.was_cyclic.contains(n) && real.is_ok() {
                    self.cyc_to_noncyc += 1;
                }
            }
            match (real, want) {
                (Err(_), Err(RPanic::Cycle | RPanic::Diverge)) => {
                    self.panics += 1;
                    self.panicked_nodes.insert(key.0);
                }
                (Ok(_), Ok(_)) => {
                    if self.panics > 0 {
                        self.ok_after_panic += 1;
                        if self.panicked_nodes.contains(&key.0) {
                            self.recovered_nodes += 1;
                        }
                    }
                }
                _ => {}
            }
            self.entries.insert((cx.rev, key.0));
        }
        out
    }

    fn labels(&self) -> Vec<&'static str> {
        let mut l = vec![];
        let two_entries = self.entry_members_per_cycle.iter().any(|(_, e)| e.len() >= 2);
        let nt = match self.which {
            12 => self.scc2 > 0 && self.first_member_requested.len() >= 2,
            13 => self.cyc_to_noncyc > 0 && two_entries,
            _ => self.panics > 0 && self.recovered_nodes > 0,
        };
        if nt {
            l.push("nontrivial");
        }
        if self.scc2 > 0 {
            l.push("scc>=2");
        }
        if two_entries {
            l.push("two-entry-members");
        }
        if self.cyc_to_noncyc > 0 {
            l.push("cycle-to-noncycle");
        }
        if self.max_iter >= 3 {
            l.push("iterations>=3");
        }
        if self.panics > 0 {
            l.push("expected-panic");
        }
        if self.recovered_nodes > 0 {
            l.push("recovered-after-panic");
        }
        l
    }
}

fn lat_profile() -> Profile {
    let mut pf = Profile::base();
    pf.lattice = true;
    pf.durs = [6, 1, 1, 0];
    pf.max_slots = 3;
    pf.max_nodes = 8;
    pf.max_ops = 4;
    pf.steps = [10, 7, 1, 0, 0, 0, 0, 0, 1];
    pf.max_steps = 30;
    pf.min_steps = 4;
    pf.kinds = [0; N_KINDS];
    pf.episode_pct = 12;
    pf
}

pub fn spec_c12() -> PropSpec {
    let mut pf = lat_profile();
    pf.kinds[6] = 3;
    pf.kinds[7] = 2;
    pf.sat_pct = 30;
    pf.maxplus_pct = 20;
    PropSpec {
        id: "C12",
        profile: pf,
        tape_len: 400,
        make: || vec![Box::new(CycKf::new(Box::new(ValueOracle::new()))), Box::new(CycStats::new(12))],
        nt_rule: "",
        engine: "seq",
        runner: None,
        decode: None,
    }
}

pub fn spec_c13() -> PropSpec {
    let mut pf = lat_profile();
    pf.kinds[8] = 1;
    PropSpec {
        id: "C13",
        profile: pf,
        tape_len: 400,
        make: || vec![Box::new(CycKf::new(Box::new(FallbackKf::new()))), Box::new(CycStats::new(13))],
        nt_rule: "",
        engine: "seq",
        runner: None,
        decode: None,
    }
}

pub fn spec_c14() -> PropSpec {
    let mut pf = lat_profile();
    pf.kinds[0] = 6;
    pf.kinds[6] = 1;
    PropSpec {
        id: "C14",
        profile: pf,
        tape_len: 400,
        make: || vec![Box::new(CycKf::new(Box::new(ValueOracle::new()))), Box::new(CycStats::new(14))],
        nt_rule: "",
        engine: "seq",
        runner: None,
        decode: None,
    }
}

pub fn spec_c15() -> PropSpec {
    let mut pf = lat_profile();
    pf.kinds[9] = 1;
    pf.max_nodes = 6;
    PropSpec {
        id: "C15",
        profile: pf,
        tape_len: 400,
        make: || vec![Box::new(CycKf::new(Box::new(ValueOracle::new()))), Box::new(CycStats::new(15))],
        nt_rule: "",
        engine: "seq",
        runner: None,
        decode: None,
    }
}

// ---------------------------------------------------------------------------------------------
// Listed finding C13/kf1: a `cycle_result` cycle that is re-entered at a participant while another
// member of the same cycle is served from its memo (validated from an earlier revision) is not
// detected as a cycle; the participant's body value is computed from the cached fallback.
// `FallbackKf` recognises exactly that situation (a Fall node executes and directly calls a Fall
// node of its own current SCC that has not executed in this revision and is not on the stack);
// from that step on the database of this case is known-affected and value mismatches are
// reported under the finding's rule instead of `value-mismatch`.
// ---------------------------------------------------------------------------------------------

pub const KF_C13: &str = "kf:c13-cycle-result-participant-recomputed-from-cached-member";
/// Listed finding C13/kf2: a `cycle_result` function that was a member of a cycle when it last
/// executed re-executes in a later revision in which its cycle has a different member set
/// (e.g. the cycle shrank and the function is now outside every cycle): it keeps returning its
/// fallback / stale participant state.
pub const KF_C13_RESHAPE: &str = "kf:c13-cycle-result-cycle-reshaped-between-revisions";

pub struct FallbackKf {
    inner: ValueOracle,
    last_exec_rev: std::collections::HashMap<u8, u32>,
    open: Vec<u8>,
    tainted: bool,
    tainted_reshape: bool,
    scc_at_exec: std::collections::HashMap<u8, std::collections::BTreeSet<u8>>,
    /// same, recorded when the body starts (an execution that panics has no End record)
    scc_at_start: std::collections::HashMap<u8, std::collections::BTreeSet<u8>>,
}

impl FallbackKf {
    pub fn new() -> Self {
        FallbackKf { inner: ValueOracle::new(), last_exec_rev: Default::default(), open: vec![], tainted: false, tainted_reshape: false, scc_at_exec: Default::default(), scc_at_start: Default::default() }
    }
}

impl Oracle for FallbackKf {
    fn step(&mut self, cx: &StepCtx) -> Vec<Violation> {
        let prog = &cx.case.prog;
        let lat = Lat::new(prog, cx.model);
        let cycles = lat.cycles();
        let is_fall = |n: u8| prog.nodes[n as usize].kind == Kind::Fall;
        for r in cx.recs {
            match r {
                Rec::Start(LKey::Node(n, _), _) => {
                    self.open.push(*n);
                    if is_fall(*n) {
                        let now: std::collections::BTreeSet<u8> = cycles.iter().find(|s| s.contains(n)).cloned().unwrap_or_default();
                        self.scc_at_start.insert(*n, now);
                    }
                }
                Rec::End(rec) => {
                    if let LKey::Node(p, _) = rec.key {
                        if let Some(pos) = self.open.iter().rposition(|x| *x == p) {
                            self.open.truncate(pos);
                        }
                        if is_fall(p) {
                            for c in &rec.calls {
                                if let LKey::Node(h, _) = c {
                                    if *h != p
                                        && is_fall(*h)
                                        && !self.open.contains(h)
                                        && self.last_exec_rev.get(h).copied().unwrap_or(0) < cx.rev
                                        && cycles.iter().any(|s| s.contains(&p) && s.contains(h))
                                        // the memo `h` is served from was itself computed as a
                                        // cycle member (a memo from an acyclic revision is
                                        // verified edge by edge and the cycle is found); after an
                                        // injected panic the executions of the faulted step are not in
                                        // the log, so membership is unknown and the test is lenient
                                        && (crate::fault::fired() || self.scc_at_exec.get(h).or(self.scc_at_start.get(h)).map(|s| !s.is_empty()).unwrap_or(true))
                                    {
                                        self.tainted = true;
                                    }
                                }
                            }
                        }
                        if is_fall(p) {
                            let now: std::collections::BTreeSet<u8> = cycles.iter().find(|s| s.contains(&p)).cloned().unwrap_or_default();
                            if let Some(prev) = self.scc_at_exec.get(&p) {
                                if !prev.is_empty() && *prev != now && self.last_exec_rev.get(&p).copied().unwrap_or(0) < cx.rev {
                                    self.tainted_reshape = true;
                                }
                            }
                            self.scc_at_exec.insert(p, now);
                        }
                        self.last_exec_rev.insert(p, cx.rev);
                    }
                }
                _ => {}
            }
        }
        if matches!(cx.res, StepRes::Got { real: Err(_), .. }) {
            self.open.clear();
        }
        let mut v = self.inner.step(cx);
        if self.tainted || self.tainted_reshape {
            for x in v.iter_mut() {
                if x.rule == "value-mismatch" {
                    x.rule = if self.tainted_reshape { KF_C13_RESHAPE } else { KF_C13 }.to_string();
                }
            }
        }
        v
    }
    fn labels(&self) -> Vec<&'static str> {
        let mut l: Vec<&'static str> = self.inner.labels().into_iter().filter(|x| *x != "nontrivial").collect();
        if self.tainted {
            l.push("kf-c13-affected");
        }
        if self.tainted_reshape {
            l.push("kf-c13-reshape-affected");
        }
        l
    }
}

// ---------------------------------------------------------------------------------------------
// Listed findings shared by every property that runs cyclic programs (C12-C15, C18, C20...).
//
// kf:cycle-finalized-with-unstable-dependencies — the flattened dependency list of a cycle member
// is assembled from the memos its callees had when it ran, so an input read far away in the cycle
// reaches a member only after several iterations. salsa finalizes the cycle as soon as values and
// changed_at/durability are stable, which can be earlier: the member is then stored without an edge
// to that input and later revisions validate it although the input changed (stale result).
// Signature (cause level, from the guarded trace hook in `try_complete_cycle_head`): a cycle was
// finalized although, in its last iteration, the flattened input edges of some head differed
// from those of that head's previous provisional memo. From that step on, a wrong value of a
// request that reaches a function executed in that computation is reported under this rule.
//
// kf:backdate-assertion-near-cycle — the debug assertion in MemoHeader::backdate assumes that a
// re-executed query whose value is unchanged cannot get an older changed_at. Cycle members are
// never backdated and are conservatively reported as changed, so a query that re-executes after
// a cycle it belonged to, or that one of its callees belongs to, was reshaped can compute an equal
// value from older stamps: debug builds panic on a valid program.
// ---------------------------------------------------------------------------------------------

pub const KF_STALE_DEPS: &str = "kf:cycle-finalized-with-unstable-dependencies";
pub const KF_BACKDATE_CYCLE: &str = "kf:backdate-assertion-near-cycle";
/// Listed finding cyc-kf4: the assertion in `CycleHeads::insert` ("Can't merge cycle heads ... with
/// different iterations") fires on one thread: after an input change a nested cycle whose
/// dependencies are value-dependent (guarded / saturating edges) is partly re-validated and partly
/// re-executed, and a memo that still carries the head's previous iteration stamp is merged with a
/// fresh one.
pub const KF_MERGE_HEADS: &str = "kf:cycle-heads-merged-with-different-iterations";
/// Listed finding cyc-kf5: a function P reads the fixpoint-initial value of a function H that is
/// still executing (a cycle), but by the time H completes the cycle through P has disappeared
/// (value-dependent dependencies: another member saturated and stopped calling P), so H completes
/// without iterating. P's provisional memo stays in the table and is later accepted as final
/// (H is final and its iteration stamp is still 0): P returns a value computed from H's initial
/// value. Signature (body log + events of one step): P completed an execution that called H while
/// H was on the stack, P did not run again in that step, and H was not iterated or finalized as a
/// cycle head in that step.
/// Listed finding cyc-kf6: a monotone program whose call ORDER depends on provisional values
/// (saturating / guarded calls) does not converge: in alternating iterations of the outer head an
/// inner head is reached through a different path, re-enters its own cycle from its initial value
/// and pulls the outer value down again; salsa gives up with "too many cycle iterations" although
/// the least fixpoint exists (also on a fresh database, first request).
pub const KF_OSCILLATION: &str = "kf:monotone-cycle-with-value-dependent-call-order-does-not-converge";
/// Listed finding cyc-kf7: salsa's own assertion `provisional_status.is_provisional()`
/// (execute.rs: "a query should only ever depend on other heads that are provisional ... it wasn't
/// executed in the last iteration of said cycle") fires on one thread for a program with
/// value-dependent dependencies after an input change. Same assertion as c18-kf2 (several threads).
pub const KF_NOT_IN_LAST_ITERATION: &str = "kf:member-not-executed-in-last-iteration-assertion";
pub const KF_ABANDONED: &str = "kf:provisional-member-of-vanished-cycle-accepted-as-final";


/// cyc-kf5 signature over a body log (any number of threads): some function P completed an execution
/// that called a function H which was on the same thread's stack at that moment, P did not run
/// again, and H either was neither iterated nor finalized as a cycle head, or started again later
/// (a further iteration or execution) in which P did not run. `node_of_id` maps the `Id`
/// bits of a `NodeKey` to its node.
pub fn abandoned_member_signature(recs: &[Rec], node_of_id: &dyn Fn(u64) -> Option<u8>) -> bool {
    !abandoned_members(recs, node_of_id).is_empty()
}

/// the members P of the signature above
pub fn abandoned_members(recs: &[Rec], node_of_id: &dyn Fn(u64) -> Option<u8>) -> BTreeSet<u8> {
    // per thread: stack of open bodies
    let mut open: std::collections::BTreeMap<u32, Vec<u8>> = Default::default();
    // P -> (heads that were on the stack when P last completed, position of that End)
    let mut pending: std::collections::BTreeMap<u8, (BTreeSet<u8>, usize)> = Default::default();
    let mut iterated: BTreeSet<u8> = BTreeSet::new();
    // node -> positions of its WillIterateCycle events
    let mut iter_at: std::collections::BTreeMap<u8, Vec<usize>> = Default::default();
    // node -> positions of its Start records
    let mut starts: std::collections::BTreeMap<u8, Vec<usize>> = Default::default();
    for (i, r) in recs.iter().enumerate() {
        match r {
            Rec::Start(LKey::Node(n, _), tid) => {
                open.entry(*tid).or_default().push(*n);
                starts.entry(*n).or_default().push(i);
            }
            Rec::End(rec) => {
                if let LKey::Node(p, _) = rec.key {
                    let st = open.entry(rec.tid).or_default();
                    if let Some(pos) = st.iter().rposition(|x| *x == p) {
                        st.truncate(pos);
                    }
                    let on_stack: BTreeSet<u8> = rec.calls.iter().filter_map(|c| if let LKey::Node(h, _) = c { Some(*h) } else { None }).filter(|h| *h != p && st.contains(h)).collect();
                    if on_stack.is_empty() {
                        pending.remove(&p);
                    } else {
                        pending.insert(p, (on_stack, i));
                    }
                }
            }
            Rec::Ev(_, Ev::WillIterate(dk, _)) => {
                if let Some(n) = node_of_id(dk.id) {
                    iterated.insert(n);
                    iter_at.entry(n).or_default().push(i);
                }
            }
            Rec::Ev(_, Ev::DidFinalize(dk, _)) => {
                if let Some(n) = node_of_id(dk.id) {
                    iterated.insert(n);
                }
            }
            _ => {}
        }
    }
    pending.iter().filter(|(p, (hs, at))| {
        hs.iter().any(|h| {
            // (i) the head completed without being iterated or finalized as a cycle head, or
            // (ii) the head started again after P's last execution, P did not run in it, and the
            //      head was not iterated after P's last execution: its final iteration stamp is
            //      still the one P recorded (0). A head that *was* iterated afterwards gets a
            //      higher stamp on the unmodified tree and P's memo is rejected.
            let restarted = starts.get(h).map(|v| v.iter().any(|s| s > at)).unwrap_or(false);
            let p_ran_after = starts.get(p).map(|v| v.iter().any(|s| s > at)).unwrap_or(false);
            let iterated_after = iter_at.get(h).map(|v| v.iter().any(|s| s > at)).unwrap_or(false);
            !iterated.contains(h) || (restarted && !p_ran_after && !iterated_after)
        })
    }).map(|(p, _)| *p).collect()
}

/// does the program contain calls whose execution depends on the value accumulated so far?
pub fn value_dependent(prog: &Program) -> bool {
    fn any(ops: &[Op]) -> bool {
        ops.iter().any(|o| match o {
            Op::CallSat { .. } | Op::CallMax { .. } => true,
            Op::If { then, els, .. } => any(then) || any(els),
            _ => false,
        })
    }
    prog.nodes.iter().any(|n| any(&n.body))
}

pub struct CycKf {
    inner: Box<dyn Oracle>,
    /// nodes executed in a fixpoint computation that was finalized with unstable dependencies
    /// -> revision of that computation
    tainted: std::collections::BTreeMap<u8, u32>,
    /// node -> last revision in which its body ran
    exec_rev: std::collections::BTreeMap<u8, u32>,
    manifested: bool,
    ever_cyclic: BTreeSet<u8>,
    unstable_finalizations: u32,
    finalizations: u32,
    backdate_hits: u32,
    /// revision in which the backdate assertion (cyc-kf2) last fired: functions with cycle
    /// recovery that were on the stack stay poisoned for the rest of that revision
    backdate_rev: Option<u32>,
    abandoned: bool,
    abandoned_n: u32,
    abandoned_set: BTreeSet<u8>,
}

impl CycKf {
    pub fn new(inner: Box<dyn Oracle>) -> Self {
        CycKf { inner, tainted: Default::default(), exec_rev: Default::default(), manifested: false, ever_cyclic: BTreeSet::new(), unstable_finalizations: 0, finalizations: 0, backdate_hits: 0, backdate_rev: None, abandoned: false, abandoned_n: 0, abandoned_set: BTreeSet::new() }
    }
}

impl Oracle for CycKf {
    fn step(&mut self, cx: &StepCtx) -> Vec<Violation> {
        use salsa::verif_hooks::TraceEvent as T;
        let prog = &cx.case.prog;
        // 1. did a cycle finalize with unstable dependencies in this step?
        let mut last: std::collections::BTreeMap<(u32, u64), bool> = Default::default();
        let mut conv: std::collections::BTreeMap<(u32, u64), (bool, bool)> = Default::default();
        let mut unstable = false;
        let mut early: Vec<Violation> = vec![];
        for h in cx.hooks {
            if let T::CycleHead { ingredient, key, finalized, deps_stable, value_converged, metadata_converged, iteration, heads, .. } = h {
                last.insert((*ingredient, *key), *deps_stable);
                conv.insert((*ingredient, *key), (*value_converged, *metadata_converged));
                if *finalized {
                    // invariant of the iteration itself (independent of any later symptom): when
                    // the outermost head finalizes the cycle, the last iteration of EVERY head of
                    // the cycle must have had a converged value and converged changed_at /
                    // durability / untracked flag
                    if let Some((k, (vc, mc))) = conv.iter().find(|(k, (vc, mc))| heads.contains(k) && (!*vc || !*mc)) {
                        early.push(viol(
                            "cycle-finalized-before-convergence",
                            cx.idx,
                            format!("cycle finalized at iteration {iteration} although head {k:?} had value_converged={vc} metadata_converged={mc} in its last iteration"),
                        ));
                    }
                    for k in heads {
                        conv.remove(k);
                    }
                    self.finalizations += 1;
                    if last.values().any(|s| !*s) {
                        unstable = true;
                        self.unstable_finalizations += 1;
                    }
                    last.clear();
                }
            }
        }
        let mut ran: BTreeSet<u8> = BTreeSet::new();
        if matches!(cx.res, StepRes::Got { real: Ok(_), .. }) {
            let node_of = |id: u64| cx.ix.dk2l.iter().find(|(dk, _)| dk.id == id).and_then(|(_, l)| if let LKey::Node(n, _) = l { Some(*n) } else { None });
            let ab = abandoned_members(cx.recs, &node_of);
            if !ab.is_empty() {
                self.abandoned = true;
                self.abandoned_n += 1;
                self.abandoned_set.extend(ab);
            }
        }
        for r in cx.recs {
            if let Rec::Start(LKey::Node(n, _), _) = r {
                ran.insert(*n);
                self.exec_rev.insert(*n, cx.rev);
            }
        }
        for n in &ran {
            if unstable {
                if matches!(prog.nodes[*n as usize].kind, Kind::Fix | Kind::FixJoin | Kind::Div | Kind::Fall) {
                    self.tainted.insert(*n, cx.rev);
                }
            } else {
                // recomputed in a step whose cycles all finalized with stable dependency lists
                self.tainted.remove(n);
            }
        }
        let mut v = self.inner.step(cx);
        if let StepRes::Got { key, .. } = cx.res {
            let lat = Lat::new(prog, cx.model);
            let reach = lat.reach(key.0);
            for c in lat.cycles() {
                self.ever_cyclic.extend(c);
            }
            // the finding manifests as a member that is REUSED (validated, not re-executed) in a
            // later revision: some reachable function was finalized with unstable dependencies in
            // an earlier revision and has not run in the current one
            let rev = cx.rev;
            let reaches_tainted = reach.iter().any(|n| self.tainted.get(n).map(|r0| *r0 < rev).unwrap_or(false) && self.exec_rev.get(n).map(|r| *r < rev).unwrap_or(true));
            let near_cycle = reach.iter().any(|n| self.ever_cyclic.contains(n));
            for x in v.iter_mut() {
                let stale_like = matches!(x.rule.as_str(), "value-mismatch" | "missing-panic" | "unexpected-panic" | "wrong-panic")
                    && !x.detail.contains("returned the same value, but the previous execution changed at");
                if stale_like && reaches_tainted {
                    x.rule = KF_STALE_DEPS.to_string();
                    self.manifested = true;
                } else if x.rule == "value-mismatch" && self.abandoned && reach.iter().any(|n| self.abandoned_set.contains(n)) {
                    x.rule = KF_ABANDONED.to_string();
                } else if x.rule == "unexpected-panic"
                    && x.detail.contains("returned the same value, but the previous execution changed at")
                    && near_cycle
                {
                    x.rule = KF_BACKDATE_CYCLE.to_string();
                    self.backdate_hits += 1;
                    self.backdate_rev = Some(cx.rev);
                } else if x.rule == "unexpected-panic" && x.detail.contains("provisional_status.is_provisional()") && value_dependent(prog) {
                    x.rule = KF_NOT_IN_LAST_ITERATION.to_string();
                    self.backdate_rev = Some(cx.rev);
                } else if x.rule == "unexpected-panic" && x.detail.contains("too many cycle iterations") && value_dependent(prog) {
                    x.rule = KF_OSCILLATION.to_string();
                    self.backdate_rev = Some(cx.rev);
                } else if x.rule == "unexpected-panic" && x.detail.contains("Can't merge cycle heads") && x.detail.contains("with different iterations") {
                    x.rule = KF_MERGE_HEADS.to_string();
                    self.backdate_rev = Some(cx.rev);
                } else if x.rule == "unexpected-panic" && x.detail.contains("PropagatedPanic") && self.backdate_rev == Some(cx.rev) {
                    x.rule = KF_BACKDATE_CYCLE.to_string();
                }
            }
        }
        v.extend(early);
        v
    }
    fn finish(&mut self, case: &Case, ix: &Index) -> Vec<Violation> {
        self.inner.finish(case, ix)
    }
    fn labels(&self) -> Vec<&'static str> {
        let mut l: Vec<&'static str> = self.inner.labels().into_iter().filter(|x| *x != "nontrivial").collect();
        if self.finalizations > 0 {
            l.push("cycle-finalized");
        }
        if self.unstable_finalizations > 0 {
            l.push("kf-unstable-deps-finalization");
        }
        if self.manifested {
            l.push("kf-stale-deps-manifested");
        }
        if self.abandoned {
            l.push("kf-provisional-member-of-vanished-cycle");
        }
        l
    }
}

// ---------------------------------------------------------------------------------------------
// C22 (single handle): fault enumeration over small programs
// ---------------------------------------------------------------------------------------------

pub fn spec_c22_acyclic() -> PropSpec {
    let mut pf = Profile::base();
    pf.max_slots = 2;
    pf.max_cells = 1;
    pf.max_nodes = 5;
    pf.max_ops = 4;
    pf.max_steps = 10;
    pf.min_steps = 3;
    pf.durs = [1, 0, 0, 0];
    pf.kinds = [5, 1, 1, 1, 2, 1, 0, 0, 0, 0];
    pf.ops = [4, 5, 2, 4, 3, 3, 0, 0, 4, 2, 2, 1, 1];
    pf.steps = [9, 6, 1, 1, 1, 1, 1, 1, 0];
    pf.sym_dom = 4;
    PropSpec {
        id: "C22",
        profile: pf,
        tape_len: 220,
        make: || vec![Box::new(ValueOracle::new())],
        nt_rule: "",
        engine: "fault",
        runner: Some(crate::faulty::run_fault_case),
        decode: None,
    }
}

pub fn spec_c22_lattice() -> PropSpec {
    let mut pf = lat_profile();
    pf.max_nodes = 6;
    pf.max_ops = 3;
    pf.max_steps = 10;
    pf.min_steps = 3;
    pf.durs = [1, 0, 0, 0];
    pf.kinds[6] = 3;
    pf.kinds[7] = 2;
    pf.kinds[8] = 1;
    PropSpec {
        id: "C22",
        profile: pf,
        tape_len: 220,
        make: || vec![Box::new(CycKf::new(Box::new(FallbackKf::new())))],
        nt_rule: "",
        engine: "faultlat",
        runner: Some(crate::faulty::run_fault_case),
        decode: None,
    }
}

//! C10 — specify. The value oracle decides values and panics against the reference specify
//! semantics (refm.rs); `SpecOracle` adds "the body of the specifiable function runs only when
//! the reference says the computed value is needed" and measures the non-trivial class.
//! C11 — accumulators: value oracle (exact list) + statistics.

use std::collections::{BTreeMap, HashMap};

use super::*;
use crate::obs::*;

#[derive(Default)]
pub struct SpecOracle {
    /// per logical struct: sequence of (revision, specified?) over creator executions
    seq: BTreeMap<(LKey, u32, u32), Vec<(u32, bool)>>,
    consumer_first: u32,
    panics_twice: u32,
    panics_foreign: u32,
    gets_after_panic: u32,
    backdated_assigned: u32,
    last_spec_val: HashMap<u64, u32>,
}

impl SpecOracle {
    pub fn new() -> Self {
        Self::default()
    }
}

impl Oracle for SpecOracle {
    fn step(&mut self, cx: &StepCtx) -> Vec<Violation> {
        let mut out = vec![];
        let top = match cx.res {
            StepRes::Got { key, .. } => Some(LKey::Node(key.0, key.1)),
            _ => None,
        };
        if let StepRes::Got { real: Err(p), want: Err(w), .. } = cx.res {
            match w {
                RPanic::SpecifyTwice if p.text().contains("twice") => self.panics_twice += 1,
                RPanic::SpecifyForeign if p.text().contains("created during") => self.panics_foreign += 1,
                _ => {}
            }
        } else if let StepRes::Got { real: Ok(_), .. } = cx.res {
            if self.panics_twice + self.panics_foreign > 0 {
                self.gets_after_panic += 1;
            }
        }
        for r in cx.recs {
            if let Rec::End(rec) = r {
                if !rec.created.is_empty() {
                    for c in &rec.created {
                        let specified = rec.specified.iter().any(|(id, _)| *id == c.id);
                        self.seq.entry((rec.key, c.ident, c.occ)).or_default().push((cx.rev, specified));
                    }
                    if top.is_some() && top != Some(rec.key) && !rec.specified.is_empty() {
                        self.consumer_first += 1;
                    }
                    for (id, v) in &rec.specified {
                        if self.last_spec_val.insert(*id, *v) == Some(*v) {
                            self.backdated_assigned += 1;
                        }
                    }
                }
                // body of on_ent_spec ran: the reference must have needed the computed value
                if let LKey::OnEntSpec(id) = rec.key {
                    if let (Some(ev), Some((creator, c, _))) = (cx.eval, cx.ix.ents.get(&id)) {
                        if let LKey::Node(n, a) = creator {
                            let rl = RLEnt { creator: (*n, *a), ident: c.ident, occ: c.occ };
                            let needed = ev.body_ran.get(&rl).copied().unwrap_or(false);
                            // only decidable when the reference evaluation completed normally
                            if !needed && matches!(cx.res, StepRes::Got { want: Ok(_), .. }) {
                                out.push(viol(
                                    "specified-body-ran",
                                    cx.idx,
                                    format!("body of on_ent_spec ran for struct {rl:?} (id {id:#x}) although the reference never needs its computed value in this request"),
                                ));
                            }
                        }
                    }
                }
            }
        }
        out
    }

    fn labels(&self) -> Vec<&'static str> {
        let mut l = vec![];
        let pattern = self.seq.values().any(|v| {
            // specified in i, not in j>i, specified again in k>j
            let mut st = 0;
            for (_, s) in v {
                st = match (st, *s) {
                    (0, true) => 1,
                    (1, false) => 2,
                    (2, true) => 3,
                    (x, _) => x,
                };
            }
            st == 3
        });
        if pattern && self.consumer_first > 0 {
            l.push("nontrivial");
        }
        if pattern {
            l.push("spec-unspec-spec");
        }
        if self.consumer_first > 0 {
            l.push("consumer-first");
        }
        if self.panics_twice > 0 {
            l.push("specify-twice-panic");
        }
        if self.panics_foreign > 0 {
            l.push("specify-foreign-panic");
        }
        if self.gets_after_panic > 0 {
            l.push("get-after-panic");
        }
        if self.backdated_assigned > 0 {
            l.push("equal-respecify");
        }
        l
    }
}

pub fn spec_c10() -> PropSpec {
    let mut pf = Profile::base();
    pf.durs = [1, 0, 0, 0];
    pf.kinds = [8, 1, 1, 1, 2, 0, 0, 0, 0, 0];
    // read, call, if, newent, entfield, callonent, callonentspec, specify, intern, ...
    pf.ops = [4, 6, 5, 7, 2, 1, 7, 7, 0, 0, 0, 0, 0];
    // `on_ent` bodies occasionally try to specify their argument (created by the still executing caller)
    pf.special_ops = [4, 3, 2, 0, 4, 0, 0, 1, 0, 0, 0, 0, 0];
    pf.specify_any_pct = 12;
    pf.max_slots = 2;
    pf.max_nodes = 5;
    pf.ret_h_pct = 80;
    pf.ident_dom = 2;
    pf.steps = [10, 10, 1, 0, 0, 0, 0, 0, 1];
    pf.max_steps = 40;
    pf.min_steps = 8;
    pf.episode_pct = 10;
    pf.spec_shape_pct = 30;
    PropSpec {
        id: "C10",
        profile: pf,
        tape_len: 450,
        make: || vec![Box::new(super::c06::Aux(Box::new(ValueOracle::new()))), Box::new(SpecOracle::new())],
        nt_rule: "",
        engine: "seq",
        runner: None,
        decode: None,
    }
}

// ---------------------------------------------------------------------------------------------

#[derive(Default)]
pub struct AccStats {
    execs_since_write: Vec<LKey>,
    wrote: bool,
    partial: u32,
    multi: u32,
    backdated_acc: u32,
    last: HashMap<LKey, (OutRepr, Vec<u32>)>,
}

impl Oracle for AccStats {
    fn step(&mut self, cx: &StepCtx) -> Vec<Violation> {
        if matches!(cx.res, StepRes::Write { .. }) {
            self.execs_since_write.clear();
            self.wrote = true;
        }
        for r in cx.recs {
            if let Rec::End(rec) = r {
                self.execs_since_write.push(rec.key);
                if let Some((o, p)) = self.last.get(&rec.key) {
                    if *o == rec.out && *p != rec.pushed {
                        self.backdated_acc += 1;
                    }
                }
                self.last.insert(rec.key, (rec.out.clone(), rec.pushed.clone()));
            }
        }
        if let (StepRes::Acc { real: Ok(_), .. }, Some(ev)) = (cx.res, cx.eval) {
            // contributing functions according to the reference
            let contributing: Vec<RKey> = ev.memo.iter().filter(|(_, r)| !r.pushed.is_empty()).map(|(k, _)| *k).collect();
            if contributing.len() >= 2 {
                self.multi += 1;
                if self.wrote {
                    let ran = |k: &RKey| match k {
                        RKey::Node(n, a) => self.execs_since_write.contains(&LKey::Node(*n, *a)),
                        _ => true,
                    };
                    let some_ran = contributing.iter().any(ran);
                    let some_not = contributing.iter().any(|k| !ran(k));
                    if some_ran && some_not {
                        self.partial += 1;
                    }
                }
            }
        }
        vec![]
    }

    fn labels(&self) -> Vec<&'static str> {
        let mut l = vec![];
        if self.partial > 0 {
            l.push("nontrivial");
            l.push("partial-reuse-acc");
        }
        if self.multi > 0 {
            l.push("multi-contributor");
        }
        if self.backdated_acc > 0 {
            l.push("same-value-different-pushes");
        }
        l
    }
}

pub fn spec_c11() -> PropSpec {
    let mut pf = Profile::base();
    pf.durs = [5, 1, 1, 1];
    pf.kinds = [6, 1, 1, 1, 2, 1, 0, 0, 0, 0];
    // a little specify: its output edges force the wide edge layout, which accumulated_by walks backwards
    pf.ops = [5, 8, 4, 2, 1, 1, 1, 2, 1, 1, 0, 0, 7];
    pf.special_ops = [4, 3, 2, 0, 4, 0, 0, 0, 0, 4, 0, 0, 3];
    pf.max_cells = 0;
    pf.steps = [4, 8, 1, 0, 9, 0, 0, 0, 0];
    pf.max_steps = 30;
    pf.min_steps = 4;
    PropSpec {
        id: "C11",
        profile: pf,
        tape_len: 450,
        make: || vec![Box::new(super::c06::Aux(Box::new(ValueOracle::new()))), Box::new(AccStats::default())],
        nt_rule: "",
        engine: "seq",
        runner: None,
        decode: None,
    }
}

//! C06 / C07 — identities. `Ids` checks, over the recorded `Id`s:
//!  * stability: an entry with the same (identity, occurrence#) as in the creator's previous
//!    execution keeps its Id;
//!  * distinctness / no aliasing: a full Id (index + generation) never denotes two different
//!    logical values over the whole history, and never two live structs at once;
//!  * discard: a struct the creator no longer creates is discarded (DidDiscard for the struct and
//!    for memos keyed by it; `entries()` no longer lists it).

use std::collections::{BTreeMap, HashMap, HashSet};

use super::*;
use crate::obs::*;

#[derive(Default)]
pub struct Ids {
    /// creator -> (dk id of creator's key, created list of its last completed execution)
    prev: HashMap<LKey, (Option<u64>, Vec<Created>)>,
    /// currently allocated struct ids -> logical identity
    live: BTreeMap<u64, LEnt>,
    /// every full Id ever seen -> logical identity (tracked structs: creator + ident)
    ever_ent: HashMap<u64, (LKey, u32)>,
    /// interned: full id -> (type, data)
    ever_sym: HashMap<(u8, u64), u32>,
    /// index -> generations seen (to detect slot reuse)
    ent_index_gen: HashMap<u32, HashSet<u64>>,
    sym_index_data: HashMap<(u8, u32), HashSet<u32>>,
    discarded: HashSet<DK>,
    pending: HashMap<u32, Vec<DK>>,
    open: HashMap<u32, Vec<(LKey, Option<DK>)>>,
    on_ent_dk: HashMap<u64, Vec<DK>>,
    // stats
    kept: u32,
    dropped: u32,
    added: u32,
    collisions: u32,
    reexec_creators: u32,
    slot_reuse_diff: u32,
    keyed_after_reuse: u32,
    reused_ids: HashSet<u64>,
    sym_reuse_events: u32,
    replaced_in_place: HashSet<u64>,
    cur_made: HashMap<LKey, HashSet<u64>>,
    hash_collision_execs: u32,
}

impl Ids {
    pub fn new() -> Self {
        Self::default()
    }
}

fn ix(id: u64) -> u32 {
    (id & 0xFFFF_FFFF) as u32
}

impl Oracle for Ids {
    fn step(&mut self, cx: &StepCtx) -> Vec<Violation> {
        let mut out = vec![];
        let mut step_discards: Vec<DK> = vec![];
        let mut expect_discard: Vec<(u64, LKey)> = vec![];
        for r in cx.recs {
            match r {
                Rec::Ev(tid, Ev::WillExecute(dk)) => self.pending.entry(*tid).or_default().push(*dk),
                Rec::Ev(_, Ev::DidDiscard(dk)) => {
                    step_discards.push(*dk);
                    self.discarded.insert(*dk);
                    // struct discarded?
                    if self.live.remove(&dk.id).is_some() {}
                }
                Rec::Ev(_, Ev::DidReuseInterned(_)) => self.sym_reuse_events += 1,
                Rec::Start(k, tid) => {
                    let dk = self.pending.entry(*tid).or_default().pop();
                    if let (LKey::OnEnt(id) | LKey::OnEntSpec(id), Some(dk)) = (k, dk) {
                        let v = self.on_ent_dk.entry(*id).or_default();
                        if !v.contains(&dk) {
                            v.push(dk);
                        }
                        if self.reused_ids.contains(id) {
                            self.keyed_after_reuse += 1;
                        }
                    }
                    if let LKey::OnSym(ty, id) = k {
                        if self.sym_index_data.get(&(*ty, ix(*id))).map(|s| s.len() > 1).unwrap_or(false) {
                            self.keyed_after_reuse += 1;
                        }
                    }
                    self.open.entry(*tid).or_default().push((*k, dk));
                    self.cur_made.remove(k);
                }
                Rec::Made(creator, c) => {
                    // aliasing over the whole history
                    let logical = (*creator, c.ident);
                    if let Some(prev) = self.ever_ent.get(&c.id) {
                        if *prev != logical {
                            out.push(viol("id-alias", cx.idx, format!("struct id {:#x} was {:?} and is now {:?}", c.id, prev, logical)));
                        }
                    } else {
                        let gens = self.ent_index_gen.entry(ix(c.id)).or_default();
                        if !gens.is_empty() {
                            self.slot_reuse_diff += 1;
                            self.reused_ids.insert(c.id);
                        }
                        gens.insert(c.id);
                        self.ever_ent.insert(c.id, logical);
                    }
                    // a colliding identity hash replaces the previous occupant in place (new
                    // generation, no DidDiscard for the struct itself): the old id is gone
                    let stale: Vec<u64> = self.live.keys().copied().filter(|old| ix(*old) == ix(c.id) && *old != c.id).collect();
                    for old in stale {
                        self.live.remove(&old);
                        self.replaced_in_place.insert(old);
                    }
                    // two live structs with one id
                    let le = LEnt { creator: *creator, ident: c.ident, occ: c.occ };
                    if let Some(other) = self.live.get(&c.id) {
                        // an entry of the same creator is either left over from the creator's
                        // previous execution (fine: the struct is being re-created, possibly at
                        // another occurrence position when identity hashes collide) or was made
                        // earlier in this very execution (two structs, one id)
                        let same_exec = self.cur_made.get(creator).map(|s| s.contains(&c.id)).unwrap_or(false);
                        if *other != le && (other.creator != *creator || same_exec) {
                            out.push(viol("id-shared-by-live-structs", cx.idx, format!("id {:#x}: {:?} and {:?}", c.id, other, le)));
                        }
                    }
                    self.cur_made.entry(*creator).or_default().insert(c.id);
                    self.live.insert(c.id, le);
                }
                Rec::End(rec) => {
                    let Some((k, dk)) = self.open.entry(rec.tid).or_default().pop() else { continue };
                    if k != rec.key {
                        continue;
                    }
                    for (ty, x, id, _) in &rec.interned {
                        if let Some(prev) = self.ever_sym.get(&(*ty, *id)) {
                            if prev != x {
                                out.push(viol("id-alias", cx.idx, format!("interned id {:#x} (type {ty}) was data {prev} and is now {x}", id)));
                            }
                        } else {
                            self.ever_sym.insert((*ty, *id), *x);
                            self.sym_index_data.entry((*ty, ix(*id))).or_default().insert(*x);
                        }
                    }
                    if rec.created.is_empty() && !self.prev.contains_key(&k) {
                        continue;
                    }
                    let dk_id = dk.map(|d| d.id);
                    // collisions inside one execution
                    if rec.created.iter().any(|c| c.occ > 0) {
                        self.collisions += 1;
                    }
                    // with the coarse identity hash, different identity values that share a hash
                    // bucket are told apart by position only: stability of (identity, occurrence)
                    // is then not promised, so it is asserted for collision-free executions only
                    let coarse = cx.case.prog.coarse_hash;
                    let collides = |l: &[Created]| coarse && l.iter().any(|a| l.iter().any(|b| a.ident != b.ident && (a.ident & 1) == (b.ident & 1)));
                    if let Some((pdk, plist)) = self.prev.get(&k) {
                        if *pdk == dk_id {
                            self.reexec_creators += 1;
                            let cross = coarse && rec.created.iter().any(|a| plist.iter().any(|b| a.ident != b.ident && (a.ident & 1) == (b.ident & 1)));
                            let check_stability = !(collides(&rec.created) || collides(plist) || cross);
                            if !check_stability {
                                self.hash_collision_execs += 1;
                            }
                            for c in &rec.created {
                                match plist.iter().find(|p| p.ident == c.ident && p.occ == c.occ) {
                                    Some(p) => {
                                        self.kept += 1;
                                        if p.id != c.id && check_stability {
                                            out.push(viol(
                                                "id-not-stable",
                                                cx.idx,
                                                format!("{k:?} re-created struct (ident {}, occurrence {}) with id {:#x}, previous execution had {:#x}", c.ident, c.occ, c.id, p.id),
                                            ));
                                        }
                                    }
                                    None => self.added += 1,
                                }
                            }
                            // discard is judged on ids: every id of the previous execution that
                            // the new execution did not hand out again must be discarded (or its
                            // slot was taken over in place by a struct whose identity hash collides)
                            for p in plist {
                                if !rec.created.iter().any(|c| c.id == p.id) {
                                    self.dropped += 1;
                                    if !rec.created.iter().any(|c| ix(c.id) == ix(p.id)) {
                                        expect_discard.push((p.id, k));
                                    }
                                }
                            }
                        }
                    }
                    self.prev.insert(k, (dk_id, rec.created.clone()));
                }
                _ => {}
            }
        }
        if matches!(cx.res, StepRes::Got { real: Err(_), .. } | StepRes::Acc { real: Err(_), .. }) {
            self.open.clear();
            self.pending.clear();
        }
        // dropped structs must have been discarded in this step, with the memos keyed by them
        for (id, creator) in expect_discard {
            if !step_discards.iter().any(|d| d.id == id) && !self.replaced_in_place.contains(&id) {
                out.push(viol("dropped-struct-not-discarded", cx.idx, format!("{creator:?} no longer creates struct {id:#x} but no DidDiscard was emitted")));
            }
            if let Some(dks) = self.on_ent_dk.get(&id) {
                for dk in dks {
                    if !step_discards.contains(dk) && !self.discarded.contains(dk) {
                        out.push(viol("dropped-struct-memo-kept", cx.idx, format!("memo {dk:?} keyed by discarded struct {id:#x} was not discarded")));
                    }
                }
            }
        }
        // enumeration agrees with created-minus-discarded
        let n = cx.world.ent_entries();
        if n != self.live.len() {
            out.push(viol("entries-mismatch", cx.idx, format!("entries() lists {n} structs, log says {} are allocated", self.live.len())));
        }
        out
    }

    fn labels(&self) -> Vec<&'static str> {
        let mut l = vec![];
        if self.kept > 0 && self.dropped > 0 && self.added > 0 && self.collisions > 0 && self.reexec_creators >= 2 {
            l.push("c06-nontrivial");
        }
        if (self.slot_reuse_diff > 0 || self.sym_reuse_events > 0) && self.keyed_after_reuse > 0 {
            l.push("c07-nontrivial");
        }
        if self.slot_reuse_diff > 0 {
            l.push("struct-slot-reused");
        }
        if self.sym_reuse_events > 0 {
            l.push("interned-slot-reused");
        }
        if self.kept > 0 {
            l.push("struct-kept");
        }
        if self.dropped > 0 {
            l.push("struct-dropped");
        }
        if self.added > 0 {
            l.push("struct-added");
        }
        if self.collisions > 0 {
            l.push("ident-collision");
        }
        if self.hash_collision_execs > 0 {
            l.push("ident-hash-collision");
        }
        if !self.replaced_in_place.is_empty() {
            l.push("struct-replaced-in-place");
        }
        l
    }
}

/// Rename the property-specific non-trivial label to "nontrivial".
pub struct Relabel(pub Box<dyn Oracle>, pub &'static str);
impl Oracle for Relabel {
    fn step(&mut self, cx: &StepCtx) -> Vec<Violation> {
        self.0.step(cx)
    }
    fn finish(&mut self, case: &Case, ix: &Index) -> Vec<Violation> {
        self.0.finish(case, ix)
    }
    fn labels(&self) -> Vec<&'static str> {
        let mut l = self.0.labels();
        if l.contains(&self.1) {
            l.push("nontrivial");
        }
        l
    }
}

/// Strip "nontrivial" from an auxiliary oracle's labels.
pub struct Aux(pub Box<dyn Oracle>);
impl Oracle for Aux {
    fn step(&mut self, cx: &StepCtx) -> Vec<Violation> {
        self.0.step(cx)
    }
    fn finish(&mut self, case: &Case, ix: &Index) -> Vec<Violation> {
        self.0.finish(case, ix)
    }
    fn labels(&self) -> Vec<&'static str> {
        self.0.labels().into_iter().filter(|l| *l != "nontrivial").collect()
    }
}

pub fn spec_c06() -> PropSpec {
    let mut pf = Profile::base();
    pf.durs = [1, 0, 0, 0];
    pf.kinds = [6, 1, 1, 1, 3, 1, 0, 0, 0, 0];
    pf.ops = [4, 5, 5, 9, 4, 4, 0, 0, 1, 1, 1, 0, 0];
    pf.ident_dom = 3;
    pf.ret_h_pct = 70;
    pf.steps = [9, 8, 1, 1, 0, 0, 0, 0, 1];
    pf.max_steps = 30;
    pf.coarse_hash_pct = 40;
    pf.max_cells = 1;
    pf.ops[11] = 1;
    PropSpec {
        id: "C06",
        profile: pf,
        tape_len: 450,
        make: || {
            vec![
                Box::new(Aux(Box::new(ValueOracle::new()))),
                Box::new(Aux(Box::new(super::c03::Justify::new()))),
                Box::new(Relabel(Box::new(Ids::new()), "c06-nontrivial")),
            ]
        },
        nt_rule: "",
        engine: "seq",
        runner: None,
        decode: None,
    }
}

pub fn spec_c07() -> PropSpec {
    let mut pf = Profile::base();
    pf.durs = [1, 0, 0, 0];
    pf.kinds = [5, 1, 1, 1, 4, 1, 0, 0, 0, 0];
    pf.ops = [4, 5, 6, 6, 3, 4, 0, 0, 7, 3, 5, 0, 0];
    pf.special_ops = [4, 3, 2, 0, 4, 0, 0, 0, 0, 4, 0, 0, 0];
    pf.sym_types = [5, 4, 2, 1];
    pf.sym_dom = 6;
    pf.ret_h_pct = 70;
    pf.steps = [8, 8, 4, 0, 0, 0, 0, 1, 1];
    pf.max_steps = 44;
    pf.min_steps = 10;
    pf.coarse_hash_pct = 40;
    pf.sym_hash_pct = 30;
    PropSpec {
        id: "C07",
        profile: pf,
        tape_len: 600,
        make: || {
            vec![
                Box::new(Aux(Box::new(ValueOracle::new()))),
                Box::new(Aux(Box::new(super::c03::Justify::new()))),
                Box::new(Relabel(Box::new(Ids::new()), "c07-nontrivial")),
            ]
        },
        nt_rule: "",
        engine: "seq",
        runner: None,
        decode: None,
    }
}

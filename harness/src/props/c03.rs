//! C03 — execution-justification predicate: every (re-)execution of a tracked function must have
//! a recorded cause since the function's last validation. "Only if" direction only; the value
//! oracle runs alongside so "conservative but wrong" cannot hide.

use std::collections::{BTreeMap, HashMap};

use super::*;
use crate::obs::*;

#[derive(Clone, Debug)]
struct Done {
    rev: u32,
    /// global log position of End
    end: usize,
    rec: ExecRec,
    dk_id: Option<u64>,
    /// value differs from the previous completed execution of the same key (or there was none,
    /// or nothing to compare with because the value was evicted)
    changed: bool,
}

#[derive(Default)]
pub struct Justify {
    hist: HashMap<LKey, Vec<Done>>,
    validated: HashMap<LKey, u32>,
    field_writes: BTreeMap<(u8, u8), Vec<u32>>,
    /// ent id -> list of (rev, log pos, tv, durability at creation)
    ent_updates: HashMap<u64, Vec<(u32, usize, u32, u8)>>,
    /// (rev, id index) of interned slot reuse
    reuses: Vec<(u32, u32)>,
    pending: HashMap<u32, Vec<DK>>,
    open: HashMap<u32, Vec<(LKey, Option<DK>, usize)>>,
    /// live counters before the current step (lru keys)
    live_before: Vec<Vec<usize>>,
    // statistics
    n_reexec: u32,
    n_by_callee: u32,
    n_by_field: u32,
    n_backdate_protected: u32,
    n_unread_protected: u32,
    /// restrict to dependants of untracked nodes (C04 clause c) — unused here
    pub only_rule: Option<&'static str>,
}

fn idx_of(id: u64) -> u32 {
    (id & 0xFFFF_FFFF) as u32
}

impl Justify {
    pub fn new() -> Self {
        Justify::default()
    }

    fn kind_of(prog: &Program, k: LKey) -> Option<Kind> {
        match k {
            LKey::Node(n, _) => Some(prog.nodes[n as usize].kind),
            _ => None,
        }
    }

    fn last(&self, k: &LKey) -> Option<&Done> {
        self.hist.get(k).and_then(|v| v.last())
    }

    fn evicted(&self, prog: &Program, k: LKey) -> bool {
        match k {
            LKey::Node(n, a) if prog.nodes[n as usize].kind == Kind::Lru => {
                // a result computed from untracked state is never evicted (C04 relies on it: the
                // old value must survive so that an equal new value can be backdated)
                let untracked = self.last(&k).map(|e| e.rec.untracked).unwrap_or(false);
                !untracked && self.live_before.get(n as usize).and_then(|r| r.get(a as usize)).copied().unwrap_or(1) == 0
            }
            _ => false,
        }
    }

    /// Is there a recorded cause for `k` (whose last completed execution is `e`, last validated
    /// in `rv`) to be considered changed / re-executed, looking at everything logged before `pos`?
    fn cause(&self, prog: &Program, k: LKey, e: &Done, rv: u32, rev_now: u32, pos: usize, depth: u32) -> Option<&'static str> {
        if e.rec.untracked && rev_now > rv {
            return Some("untracked");
        }
        for rf in &e.rec.reads {
            if let Some(ws) = self.field_writes.get(rf) {
                if ws.iter().any(|&r| r > rv) {
                    return Some("field-written");
                }
            }
        }
        for (id, which) in &e.rec.ent_reads {
            if *which == 0 {
                continue;
            }
            if let Some(ups) = self.ent_updates.get(id) {
                // updates after rv; tv: value differs from the value before that update
                let mut prev: Option<(u32, u8)> = None;
                for (r, p, tv, dur) in ups {
                    if *r > rv && *p < pos {
                        if *which == 2 || prev.map(|(t, _)| t != *tv).unwrap_or(true) {
                            return Some("struct-field-recreated");
                        }
                        // recreated by a less durable creator: salsa re-stamps every field
                        if prev.map(|(_, d)| *dur < d).unwrap_or(false) {
                            return Some("struct-less-durable");
                        }
                    }
                    prev = Some((*tv, *dur));
                }
            }
        }
        for (_, _, id, _) in &e.rec.interned {
            if self.reuses.iter().any(|(r, ix)| *r > rv && *ix == idx_of(*id)) {
                return Some("interned-reclaimed");
            }
        }
        for (_, id) in &e.rec.sym_reads {
            if self.reuses.iter().any(|(r, ix)| *r > rv && *ix == idx_of(*id)) {
                return Some("interned-reclaimed");
            }
        }
        for c in &e.rec.calls {
            // reclaimed key of a callee (interned argument tuple, interned key)
            if let LKey::OnSym(_, id) = c {
                if self.reuses.iter().any(|(r, ix)| *r > rv && *ix == idx_of(*id)) {
                    return Some("interned-reclaimed");
                }
            }
            if let Some(h) = self.hist.get(c) {
                if let Some(idb) = h.last().and_then(|d| d.dk_id) {
                    if Self::kind_of(prog, *c) == Some(Kind::Two) && self.reuses.iter().any(|(r, ix)| *r > rv && *ix == idx_of(idb)) {
                        return Some("interned-reclaimed");
                    }
                }
                for d in h.iter().rev() {
                    if d.rev <= rv {
                        break;
                    }
                    if d.end < pos && d.changed {
                        return Some("callee-changed");
                    }
                }
            }
            // an evicted lru callee answers "changed" without running when its own inputs changed
            if depth < 8 && self.evicted(prog, *c) {
                if let Some(ce) = self.last(c) {
                    let crv = self.validated.get(c).copied().unwrap_or(0).max(ce.rev);
                    if self.cause(prog, *c, ce, crv.min(rv), rev_now, pos, depth + 1).is_some() {
                        return Some("evicted-callee-stale");
                    }
                }
            }
        }
        let _ = k;
        None
    }
}

impl Oracle for Justify {
    fn step(&mut self, cx: &StepCtx) -> Vec<Violation> {
        let mut out = vec![];
        let prog = &cx.case.prog;
        // writes are visible from the revision they create
        if let (Step::Set { slot, field, .. }, StepRes::Write { real: Ok(()), .. }) = (cx.step, cx.res) {
            self.field_writes.entry((*slot, *field)).or_default().push(cx.rev);
        }
        let rev = cx.rev;
        let mut step_validated: Vec<LKey> = vec![];
        let mut step_equal_exec: Vec<LKey> = vec![];
        for (i, r) in cx.recs.iter().enumerate() {
            let pos = cx.base + i;
            match r {
                Rec::Ev(tid, Ev::WillExecute(dk)) => self.pending.entry(*tid).or_default().push(*dk),
                Rec::Ev(_, Ev::DidValidate(dk)) => {
                    if let Some(l) = cx.ix.dk2l.get(dk) {
                        self.validated.insert(*l, rev);
                        step_validated.push(*l);
                    }
                }
                Rec::Ev(_, Ev::DidReuseInterned(dk)) => self.reuses.push((rev, idx_of(dk.id))),
                Rec::Made(_, c) => self.ent_updates.entry(c.id).or_default().push((rev, pos, c.tv, c.dur)),
                Rec::Start(k, tid) => {
                    let dk = self.pending.entry(*tid).or_default().pop();
                    self.open.entry(*tid).or_default().push((*k, dk, pos));
                }
                Rec::End(rec) => {
                    let Some((k, dk, _start)) = self.open.entry(rec.tid).or_default().pop() else { continue };
                    debug_assert_eq!(k, rec.key);
                    let dk_id = dk.map(|d| d.id);
                    let prev = self.last(&k).cloned();
                    let same_identity = match (&prev, dk_id) {
                        (Some(p), Some(id)) => p.dk_id == Some(id),
                        (Some(_), None) => true,
                        (None, _) => false,
                    };
                    let was_evicted = self.evicted(prog, k);
                    let mut changed = true;
                    if let (Some(p), true) = (&prev, same_identity) {
                        self.n_reexec += 1;
                        let rv = self.validated.get(&k).copied().unwrap_or(0).max(p.rev);
                        let why = if was_evicted { Some("evicted") } else { self.cause(prog, k, p, rv, rev, pos, 0) };
                        match why {
                            None => {
                                out.push(viol(
                                    "unjustified-execution",
                                    cx.idx,
                                    format!(
                                        "{k:?} re-executed in R{rev} (last validated R{rv}) but nothing it read changed: reads={:?} calls={:?} ent_reads={:?}",
                                        p.rec.reads, p.rec.calls, p.rec.ent_reads
                                    ),
                                ));
                            }
                            Some("callee-changed") => self.n_by_callee += 1,
                            Some("field-written") => self.n_by_field += 1,
                            _ => {}
                        }
                        let noeq = Self::kind_of(prog, k) == Some(Kind::NoEq);
                        // a less durable result is never backdated: dependants see it as changed
                        changed = noeq || was_evicted || p.rec.out != rec.out || rec.dur < p.rec.dur;
                        if !changed {
                            step_equal_exec.push(k);
                        }
                    }
                    self.hist.entry(k).or_default().push(Done { rev, end: pos, rec: (**rec).clone(), dk_id, changed });
                }
                _ => {}
            }
        }
        // statistics: backdating / unread-write protection observed
        for k in &step_validated {
            let (mut bp, mut up) = (false, false);
            if let Some(e) = self.last(k) {
                bp = e.rec.calls.iter().any(|c| step_equal_exec.contains(c));
                let unread_written = self.field_writes.iter().any(|(f, ws)| !e.rec.reads.contains(f) && ws.iter().any(|&r| r > e.rev));
                up = unread_written && !e.rec.reads.is_empty();
            }
            self.n_backdate_protected += bp as u32;
            self.n_unread_protected += up as u32;
        }
        if matches!(cx.res, StepRes::Got { real: Err(_), .. } | StepRes::Acc { real: Err(_), .. }) {
            self.open.clear();
            self.pending.clear();
        }
        // snapshot live counters for the next step
        self.live_before = (0..prog.nodes.len()).map(|n| (0..prog.nodes[n].nargs).map(|a| cx.world.live(n as u8, a)).collect()).collect();
        out
    }

    fn labels(&self) -> Vec<&'static str> {
        let mut l = vec![];
        if self.n_by_callee > 0 && (self.n_backdate_protected > 0 || self.n_unread_protected > 0) {
            l.push("nontrivial");
        }
        if self.n_by_callee > 0 {
            l.push("reexec-by-callee");
        }
        if self.n_by_field > 0 {
            l.push("reexec-by-field");
        }
        if self.n_backdate_protected > 0 {
            l.push("backdate-protected");
        }
        if self.n_unread_protected > 0 {
            l.push("unread-write-protected");
        }
        if self.n_reexec > 0 {
            l.push("has-reexec");
        }
        l
    }
}

/// mixed durabilities: fields of LOW/MEDIUM/HIGH durability, writes that raise or lower a
/// field's durability; the body interpreter tracks durabilities with salsa's own rules so that
/// "became less durable" is a recorded cause and "became more durable" is not
pub fn spec_c03_dur() -> PropSpec {
    let mut s = spec_c03();
    s.profile.durs = [3, 2, 2, 0];
    s.profile.set_dur_pct = 35;
    s.profile.set_durs = [2, 2, 2, 0];
    s.profile.ops = [7, 7, 4, 4, 4, 3, 0, 0, 2, 1, 1, 1, 0];
    s.engine = "seqdur";
    s
}

pub fn spec_c03() -> PropSpec {
    let mut pf = Profile::base();
    // all-LOW durabilities: the durability model is then exact (LOW or read-free NEVER_CHANGE)
    pf.durs = [1, 0, 0, 0];
    pf.set_dur_pct = 0;
    // no specify, no accumulate
    pf.ops = [6, 7, 3, 3, 3, 2, 0, 0, 3, 2, 2, 2, 0];
    pf.steps = [9, 7, 1, 1, 0, 1, 1, 1, 0];
    PropSpec {
        id: "C03",
        profile: pf,
        tape_len: 400,
        make: || vec![Box::new(super::c06::Aux(Box::new(ValueOracle::new()))), Box::new(Justify::new())],
        nt_rule: "",
        engine: "seq",
        runner: None,
        decode: None,
    }
}

#![no_main]
//! libFuzzer target for C23 under AddressSanitizer + LeakSanitizer: the input bytes are the
//! choice tape of the history generators (acyclic programs with lru eviction, tracked-struct
//! churn, interned reclamation, returns(ref) functions; cyclic programs; panicking requests).
//! A fresh database per iteration; the value oracle and the reference-revalidation oracle run
//! inside the target, so silent corruption that changes a value is caught even without a report
//! from the sanitizer.
use libfuzzer_sys::fuzz_target;

fn tape(data: &[u8]) -> Vec<u32> {
    data.chunks(4).map(|c| { let mut b = [0u8; 4]; b[..c.len()].copy_from_slice(c); u32::from_le_bytes(b) }).collect()
}

fuzz_target!(|data: &[u8]| {
    // libfuzzer-sys aborts on every panic; panics are part of the contract here (cycle errors,
    // writes to frozen fields, injected faults) and are caught and judged by the oracles
    static QUIET: std::sync::Once = std::sync::Once::new();
    QUIET.call_once(|| std::panic::set_hook(Box::new(|_| {})));
    let t = tape(data);
    let (case, out) = vh::memsafe::run_tape(&t);
    let nt = out.labels.contains(&"nontrivial");
    let labels: Vec<&'static str> = out.labels.clone();
    vh::fuzzsum::note("C23", nt, case.hash(), out.steps_run as u64, &labels, || serde_json::to_value(&case).unwrap());
    if let Some(x) = out.violations.iter().find(|v| !v.rule.starts_with("kf:")) {
        eprintln!("ORACLE-VIOLATION rule={} {}", x.rule, x.detail);
        eprintln!("case: {}", serde_json::to_string(&case).unwrap());
        std::process::abort();
    }
});

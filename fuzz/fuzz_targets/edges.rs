#![no_main]
//! libFuzzer target for C25 under AddressSanitizer: the input bytes are the choice tape of the
//! `enc` generator; every round-trip / partition law is checked in-target.
use libfuzzer_sys::fuzz_target;

fn tape(data: &[u8]) -> Vec<u32> {
    data.chunks(4).map(|c| { let mut b = [0u8; 4]; b[..c.len()].copy_from_slice(c); u32::from_le_bytes(b) }).collect()
}

fuzz_target!(|data: &[u8]| {
    // libfuzzer-sys aborts on every panic; panics are part of the contract here (cycle errors,
    // writes to frozen fields, injected faults) and are caught and judged by the oracles
    static QUIET: std::sync::Once = std::sync::Once::new();
    QUIET.call_once(|| std::panic::set_hook(Box::new(|_| {})));
    let t = tape(data);
    let c = vh::enc::gen_enc_case(&t);
    let nt = c.nontrivial();
    let h = c.hash();
    let v = vh::enc::check_case(&c);
    vh::fuzzsum::note("C25", nt, h, 1, &[], || serde_json::to_value(&c).unwrap());
    if let Some(x) = v.first() {
        eprintln!("ORACLE-VIOLATION rule={} {}", x.rule, x.detail);
        eprintln!("case: {}", serde_json::to_string(&c).unwrap());
        std::process::abort();
    }
});

#!/usr/bin/env python3
"""Regenerate MANIFEST.json from props.json (claimed checks) and na.json (not-applicable reasons)."""
import json, os, subprocess
R = os.path.dirname(os.path.dirname(os.path.abspath(__file__)))
props = [json.loads(l) for l in open(os.path.join(R, "properties.jsonl"))]
table = json.load(open(os.path.join(R, "props.json")))
na = json.load(open(os.path.join(R, "na.json"))) if os.path.exists(os.path.join(R, "na.json")) else {}
def engs(v):
    return [p["engine"] for p in v["parts"]] if "parts" in v else [v["engine"]]


commits = subprocess.run(["git", "-C", "/repo", "log", "--format=%H %s", "ca4df55..HEAD"], capture_output=True, text=True).stdout.strip().splitlines()
hook_commits = [c.split()[0] for c in commits if "verif hook" in c.lower()]
m = {
    "version": 1,
    "setup_cmd": "./check --setup",
    "hooks": {
        "guard": "cargo feature `verif_hooks` of the salsa crate (off by default)",
        "enable": "the harness crate /verif/harness depends on salsa by path (/repo) with features=[\"verif_hooks\"]; every check runs `cargo build --offline` first, so edits in /repo's working tree are rebuilt",
        "baseline_off_cmd": "cd /repo && cargo test --workspace --no-fail-fast --offline",
        "source_commits": hook_commits,
        "add_only": True,
    },
    "engines": [
        {"name": "seq", "path": "harness/src/seq.rs", "kind_free_text": "proptest-driven single-handle histories over generated programs; reference interpreter + log oracles", "serves_properties": [k for k, v in table.items() if "seq" in engs(v)]},
        {"name": "coop", "path": "harness/src/coop.rs", "kind_free_text": "real threads under a harness-owned, tape-generated schedule (baton scheduler)", "serves_properties": [k for k, v in table.items() if "coop" in engs(v)]},
        {"name": "shut", "path": "harness/src/shut.rs", "kind_free_text": "shuttle (random/PCT schedulers) over salsa's shuttle build", "serves_properties": [k for k, v in table.items() if "shut" in engs(v)]},
        {"name": "fuzz", "path": "fuzz/", "kind_free_text": "cargo-fuzz / libFuzzer + ASan over the same tape decoders", "serves_properties": [k for k, v in table.items() if "fuzz" in engs(v)]},
    ],
    "checks": [],
    "not_applicable": [],
    "notes": "All checks: ./check <ID> --tier quick|thorough (VERIF_SEED honoured). Technique family: property-based testing and fuzzing; see DESIGN.md.",
}
for p in props:
    pid = p["id"]
    if pid in table:
        t = table[pid]
        m["checks"].append({
            "property_id": pid,
            "quick_cmd": f"./check {pid} --tier quick",
            "thorough_cmd": f"./check {pid} --tier thorough",
            "evidence_file": f"/verif/evidence/{pid}.json",
            "replay_cmd_template": f"./check {pid} --replay {{path}}",
            "engine": "+".join(engs(t)),
            "level_claimed": {"category": t["level"], "text": t.get("level_text", "generated-input search against an explicit oracle; no counterexample in the explored, measured space"), "design_ref": f"DESIGN.md §4 {pid}"},
            "level_note": t.get("level_note", "; ".join(t.get("assumptions", []))),
            "technique": t.get("technique", "property-based testing (proptest tape generator + reference-model oracle)"),
        })
    else:
        m["not_applicable"].append({"property_id": pid, "reason": na.get(pid, "check not built yet (work in progress)")})
json.dump(m, open(os.path.join(R, "MANIFEST.json"), "w"), indent=1)
print("claimed", len(m["checks"]), "na", len(m["not_applicable"]))

#!/usr/bin/env python3
"""Write seeded/<id>/meta.json and seeded/INDEX.md from the confirmation logs and the result files
of tools/mutrun.sh / tools/seedcheck.sh kept under seeded/results/ (later files override earlier ones)."""
import json, os, re, glob
R = os.path.dirname(os.path.dirname(os.path.abspath(__file__)))
NEEDS = {
 "C01-1": "tracked struct whose creator becomes LESS durable (reads a LOW input through a dynamic dependency) while its fields stay equal; then a write to that LOW input only; reader of the tracked field is HIGH and skipped by the durability shortcut",
 "C01-2": "two queries intern the same LOW, collectable value in one revision; the second gets no edge; slot reclaimed later; second query asked again",
 "C03-1": "a backdated memo (changed_at < verified_at) deep-verified again in a later revision after an unrelated write of its durability",
 "C03-2": "creator becomes MORE durable and recreates the struct with equal tracked fields; readers of the fields re-execute although nothing changed",
 "C05-1": "a cached lru key requested again in the same revision (hot path) / capacity 0 then N without a new revision; observe which key is evicted or how many stay",
 "C05-2": "lru function that creates tracked structs, evicted, re-requested with unchanged inputs: fresh struct ids although a validated dependant holds the old one",
 "C06-1": "identity-hash collision between different identity values, re-execution switches value, next re-execution keeps it",
 "C06-2": "creator with an untracked read creates fewer structs later: dropped struct neither discarded nor removed from enumeration",
 "C07-1": "identity-hash collision, two consecutive re-creations with changed identity; dependant reaches the struct through the creator's backdated result",
 "C07-2": "same value interned by two queries in one revision; the edge-less one survives the slot's reclamation",
 "C09-1": "non-LOW query interns a new value into a recycled stale LOW slot; slot stays on the LRU and is recycled again later",
 "C09-2": "one LOW value shared by >= revisions+1 memos revalidated round-robin in different revisions, then a new value interned",
 "C02-1": "query mixing MEDIUM and HIGH fields; value-changing write to the HIGH field with no MEDIUM write in between",
 "C02-2": "frozen (NEVER_CHANGE) field, rejected write that names another durability, then a second write to the same field succeeds silently",
 "C04-1": "lru function that reads untracked state, more keys than capacity, new revision with equal result: dependants of an evicted key re-execute",
 "C04-2": "fixpoint head that reads untracked state only in a non-final iteration; cell changes in a later revision",
 "C10-1": "body of the specified function reads an input that is written while the value is still specified; reader validated; later the creator stops specifying",
 "C10-2": "specify called by a callee of the creator (struct passed as argument) while the creator is still executing: accepted instead of panicking; result depends on call order",
 "C11-1": "accumulating sub-query more durable than its caller; unrelated LOW write; caller deep-verified unchanged, sub-query brought forward by durability; accumulated() on the caller",
 "C11-2": "query whose edges are stored wide (it uses specify, or huge ingredient index / generation) and that calls >= 2 accumulating functions: reversed order",
 "C12-1": "cycle nested in another cycle; a write that shrinks an input so values stabilise by the second iteration; older consumer memo; outermost head requested first",
 "C12-2": "conditionally formed nested cycle visited only in a non-final outer iteration and never requested; shrinking write; re-entry through the abandoned head",
 "C13-1": "cycle formed by editing one node's edges while the other members are memoized from an acyclic revision; new revision entered through the edited node, through >= 2 old memos",
 "C14-1": "cycle error (panic through functions without recovery) in the middle of a fixpoint iteration after a no-recovery participant completed; later revision in which the head no longer calls it and finalizes; participant requested afterwards (same change as C20-2)",
 "C14-2": "cycle error while a fixpoint function is on the stack; new revision; that function is re-entered as a legitimate cycle head before completing once",
 "C15-1": "'too many cycle iterations' panic leaves a provisional memo of a nested inner head; later revision re-enters it",
 "C15-2": "poisoned provisional memo (Durability::MAX) of an earlier revision stamped verified by the durability shortcut before its provisional state is validated",
 "C16-1": "lru sub-query evicted at the revision boundary, its input changed, two readers validating different dependants; reader 2 blocks on the sub-query while reader 1 holds it inside deep verification",
 "C16-2": "two different tracked functions store the very first memos of one struct at the same time (lazy per-struct memo table published with a plain store); same change as C17-2",
 "C17-1": "handle B probes the memo table before handle A inserts the fresh memo and calls try_claim after A released the claim",
 "C17-2": "same as C16-2",
 "C19-1": "nested cycles on one thread (locks transferred c -> b -> a), another thread blocked on the innermost query, outermost head unwinds (panic / pending write)",
 "C19-2": "query nested in a fixpoint query panics while its thread's cancellation token is cancelled (deferred); another thread waits on the nested query",
 "C20-1": "reader cancelled inside a fixpoint iteration drops its handle before the writer reads the clone count; revision-preserving write (trigger_cancellation / lru capacity / eviction)",
 "C20-2": "same change as C14-1; reader cancelled by a write during iteration 0 after a participant with higher-durability inputs completed; head acyclic in the new revision and requested first",
 "C21-1": "cancel() arrives while the handle executes a cycle_result function that then makes another tracked request; a second handle waits on it",
 "C21-2": "cancel() arrives while the cancelled handle is inside its outermost fixpoint query; the handle then makes a tracked request outside it",
 "C22-1": "tracked struct re-created in a later revision, panic in a tracked field's PartialEq, same request retried in the same revision",
 "C22-2": "function re-executes, creates fewer tracked structs than before, and its result's PartialEq panics during backdating; request repeated",
 "C08-1": "interned slot reclaimed for a value with a different hash than the value it replaces (existing GC tests use a constant hash); the new value interned again before the key map resizes",
 "C08-2": "Vec field interned through a slice; a vector and one of its prefixes with colliding hashes (same shard, same 7 tag bits) so that hashbrown calls eq",
 "C18-1": "cycle member read only the head's initial value; the cycle through it disappears in a later iteration (short-circuit), the head completes cycle-free; another thread (or a later request) enters at that member",
 "C18-2": "second revision; query x read participant d outside the cycle in revision 1; the cycle re-runs; x is validated while d's lock is transferred",
 "C23-1": "query with cycle recovery whose memo has no value and is from an older revision (head panicked earlier, or lru-evicted) executes again and re-enters its own cycle",
 "C23-2": "origin with extra data (accumulated values / tracked-struct ids / cycle heads) and zero retained edges: every fixpoint-initial memo, functions that read no tracked input",
 "C24-1": "a handle dropped with a partially filled page; two live handles then take their first page for that ingredient concurrently",
 "C24-2": "Storage::into_zalsa_handle on a storage with a partially filled page, later two handles built with StorageHandle::into_storage allocate concurrently",
 "C25-1": "database with more than 4096 ingredients (packed edge to ingredient index 4096..8191)",
 "C25-2": "wide-layout DerivedUntracked origin (query with an output edge, e.g. specify) asked is_derived_untracked: fixpoint head that reads untracked state only in an early iteration",
 "C26-1": "two memos of one persisted function sharing a non-persisted query reached through another non-persisted query; write to the input read only there after the restore",
 "C26-2": "persisted reclaimable interned value whose slot was reused before serialization (generation > 0) and is reused again after the restore",
 "C13-2": "two cycle_result cycles sharing a node, entered through the outer one; every member read; a write breaks only the outer cycle; request into the inner cycle",
}
NOTES = {
 "C18-2": "reported by C12 (16 of 16 workers, seeded/results/batch12-*.txt) until repair 46dd83e (provisional callee treated as changed); on the repaired tree the change no longer breaks the property: its own demonstration seeded_C18_2.rs passes with the patch applied",
 "C08-2": "documented miss: needs a Vec field interned through a slice with colliding hashes; the harness has no such item",
}
res = {}
order = sorted(glob.glob(os.path.join(R, "seeded/results/*.txt")), key=lambda f: [int(x) if x.isdigit() else x for x in re.split(r"(\d+)", os.path.basename(f))])
for f in order:
    for l in open(f):
        p = l.split()
        if len(p) < 3 or not p[2].startswith("violations="):
            continue
        name, prop, v = p[0], p[1], int(p[2].split("=")[1])
        res.setdefault(name, {})[prop] = (v, " ".join(p[4:])[:200], os.path.basename(f))
rows = []
for d in sorted(glob.glob(os.path.join(R, "seeded/C*-*"))):
    name = os.path.basename(d)
    prop = name.split("-")[0]
    conf = ""
    cl = os.path.join(d, "confirm.log")
    if os.path.exists(cl):
        m = re.search(r"SUMMARY \S+ without=(\d+) with=(\d+) suite=(\d+)", open(cl).read())
        if m:
            conf = {"demo_without_change_exit": int(m.group(1)), "demo_with_change_exit": int(m.group(2)), "suite_with_change_exit": int(m.group(3))}
    r = res.get(name, {})
    caught = sorted(k for k, (v, _, _) in r.items() if v > 0)
    first = {}
    for f in order[:1]:
        pass
    meta = {
        "id": name,
        "property_broken": prop,
        "needs_to_manifest": NEEDS.get(name, "see notes.md"),
        "confirmation": conf,
        "confirmation_cmd": f"tools/confirm_seed.sh {name} <scratch worktree>  (demo on clean source, demo with patch, cargo test --workspace --no-fail-fast --offline with patch)",
        "checks_run": "tools/mutrun.sh (scratch copy of /repo + /verif, ./check <P> --tier quick for every listed property); final runs on /repo itself with tools/seedcheck.sh",
        "detected_by_quick_checks": caught,
        "detail": {k: {"workers_reporting_violation": v, "first_rule": t, "result_file": f} for k, (v, t, f) in sorted(r.items()) if v > 0},
        "checked_without_detection": sorted(k for k, (v, _, _) in r.items() if v == 0),
    }
    if name in NOTES:
        meta["note"] = NOTES[name]
    json.dump(meta, open(os.path.join(d, "meta.json"), "w"), indent=1)
    rows.append((name, prop, caught, meta["needs_to_manifest"]))
with open(os.path.join(R, "seeded/INDEX.md"), "w") as f:
    f.write("# Seeded changes and the checks that catch them\n\n(generated by tools/seedindex.py from seeded/results/*.txt; later result files override earlier ones)\n\n| change | breaks | caught by (quick tier) | needs |\n|---|---|---|---|\n")
    for name, prop, caught, needs in rows:
        own = "**" + prop + "**" if prop in caught else prop + " (own check silent)"
        f.write(f"| {name} | {own} | {', '.join(caught) if caught else 'NONE'} | {needs} |\n")
print("wrote", len(rows))

#!/bin/bash
# Run registered quick checks against one seeded change ON /repo ITSELF (the way the brief
# prescribes): apply, run, undo straight afterwards. Nothing else may use /repo meanwhile.
# usage: seedcheck.sh <outfile> <seeded id> <prop>...
OUT=$1; ID=$2; shift 2
cd /verif || exit 2
[ -z "$(git -C /repo status --porcelain)" ] || { echo "/repo is not clean" >&2; exit 2; }
git -C /repo apply /verif/seeded/$ID/patch.diff || { echo "$ID APPLY_FAILED" >> $OUT; exit 2; }
trap 'git -C /repo checkout -- .' EXIT
for p in "$@"; do
  t0=$(date +%s)
  r=$(./check $p --tier quick 2>/tmp/seedcheck.err | grep -c "^VIOLATION")
  rule=$(grep -m1 "rule=" /tmp/seedcheck.err | cut -c1-160)
  echo "$ID $p violations=$r secs=$(( $(date +%s)-t0 )) $rule" >> $OUT
  find /verif/replays -name "$p-*" -delete 2>/dev/null
done

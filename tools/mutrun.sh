#!/bin/bash
# Development helper: run the checks against seeded changes in a scratch copy (not /repo), so that
# work in /verif and /repo is not disturbed. Final confirmation runs use /repo itself (tools/seedcheck.sh).
# usage: mutrun.sh <outfile> <patchdir>... ; env PROPS="C01 C02 ..." limits the properties
OUT=$1; shift
MR=${MR:-/tmp/mut-repo}; MV=${MV:-/tmp/mut-verif}
[ -d $MR ] || git -C /repo worktree add --detach $MR HEAD >/dev/null 2>&1
git -C $MR checkout -q --detach $(git -C /repo rev-parse HEAD) 2>/dev/null
mkdir -p $MV
rsync -a --delete --exclude 'target*' --exclude .git --exclude scratch --exclude replays /verif/ $MV/
sed -i "s#path = \"/repo\"#path = \"$MR\"#" $MV/harness/Cargo.toml
[ -f $MV/fuzz/Cargo.toml ] && sed -i "s#path = \"/repo\"#path = \"$MR\"#" $MV/fuzz/Cargo.toml
PROPS=${PROPS:-$(python3 -c "import json;print(' '.join(json.load(open('/verif/props.json')).keys()))")}
for d in "$@"; do
  name=$(basename $d)
  git -C $MR checkout -q -- . ; git -C $MR clean -fdq
  if [ "$name" != "BASE" ]; then git -C $MR apply $d/patch.diff || { echo "$name APPLY_FAILED" >> $OUT; continue; }; fi
  for p in $PROPS; do
    rm -rf $MV/replays; t0=$(date +%s)
    r=$(cd $MV && timeout 1500 ./check $p --tier ${TIER:-quick} 2>$MV/last.err | grep -c "^VIOLATION"); rc=${PIPESTATUS[0]}
    rule=$(grep -m1 "rule=" $MV/last.err | cut -c1-160)
    echo "$name $p violations=$r secs=$(( $(date +%s)-t0 )) $rule" >> $OUT
  done
done
git -C $MR checkout -q -- .
echo "ALLDONE" >> $OUT

#!/bin/bash
# confirm a seeded change in its scratch worktree: demo passes without, fails with; suite passes with.
# usage: confirm_seed.sh <ID-K> [worktree]   (expects /tmp/seed-<ID> worktree and /tmp/seed-out/<ID-K>/{patch.diff,seeded_<ID>_<K>.rs})
IDK=$1; ID=${IDK%-*}; K=${IDK#*-}; WT=${2:-/tmp/seed-$ID}; OUT=/tmp/seed-out/$IDK; LOG=$OUT/confirm.log; T=seeded_${ID}_${K}
cd $WT || exit 2
# demonstrations gated on salsa's shuttle feature need it enabled (one Runner per test thread)
FEAT=""; TAIL=""
if grep 'feature = "shuttle"' $OUT/$T.rs 2>/dev/null | grep -vq 'not(feature = "shuttle")'; then FEAT="--features shuttle"; TAIL="-- --test-threads=1"; fi
if grep -q 'feature = "persistence"' $OUT/$T.rs 2>/dev/null; then FEAT="--features persistence"; fi
git checkout -q -- . ; git clean -fdq tests/
exec > $LOG 2>&1
echo "== demo on unmodified source"
cp $OUT/$T.rs tests/
cargo test --offline $FEAT --test $T $TAIL 2>&1 | grep -E "^test |test result" ; A=${PIPESTATUS[0]}
echo "demo_without_change_exit=$A"
echo "== demo with change"
git apply $OUT/patch.diff || { echo APPLY_FAILED; exit 2; }
cargo test --offline $FEAT --test $T $TAIL 2>&1 | grep -E "^test |test result" ; B=${PIPESTATUS[0]}
echo "demo_with_change_exit=$B"
rm -f tests/$T.rs
echo "== suite with change"
cargo test --workspace --no-fail-fast --offline > $OUT/suite.log 2>&1; C=$?
grep -E "^test result" $OUT/suite.log | awk '{p+=$4; f+=$6} END {print "suite passed",p,"failed",f}'
echo "suite_with_change_exit=$C"
git checkout -q -- . ; git clean -fdq tests/
echo "SUMMARY $IDK without=$A with=$B suite=$C"

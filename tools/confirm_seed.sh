#!/bin/bash
# confirm a seeded change in its scratch worktree: demo passes without, fails with; suite passes with.
# usage: confirm_seed.sh <ID>   (expects /tmp/seed-<ID> worktree and /tmp/seed-out/<ID>/{patch.diff,seeded_<ID>.rs})
ID=$1; WT=/tmp/seed-$ID; OUT=/tmp/seed-out/$ID; LOG=$OUT/confirm.log
cd $WT || exit 2
git checkout -q -- . ; rm -f tests/seeded_$ID.rs
exec > $LOG 2>&1
echo "== demo on unmodified source"
cp $OUT/seeded_$ID.rs tests/
cargo test --offline --test seeded_$ID 2>&1 | grep -E "^test |test result" ; A=${PIPESTATUS[0]}
echo "demo_without_change_exit=$A"
echo "== demo with change"
git apply $OUT/patch.diff || { echo APPLY_FAILED; exit 2; }
cargo test --offline --test seeded_$ID 2>&1 | grep -E "^test |test result" ; B=${PIPESTATUS[0]}
echo "demo_with_change_exit=$B"
rm -f tests/seeded_$ID.rs
echo "== suite with change"
cargo test --workspace --no-fail-fast --offline 2>&1 | grep -E "^test result|FAILED|failed" | sort | uniq -c | sort -rn | head -8; C=${PIPESTATUS[0]}
echo "suite_with_change_exit=$C"
git checkout -q -- .
echo "SUMMARY $ID without=$A with=$B suite=$C"

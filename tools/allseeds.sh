#!/bin/bash
# run every registered quick check under several seeds; print one line per (seed, property)
# usage: allseeds.sh "<seeds>" [props...]
SEEDS=${1:-"2 3"}; shift
PROPS=${@:-$(python3 -c "import json;print(' '.join(json.load(open('props.json')).keys()))")}
./check --setup >/dev/null 2>&1
for s in $SEEDS; do for p in $PROPS; do
  t0=$(date +%s); out=$(VERIF_SEED=$s ./check $p --tier quick 2>&1); rc=$?
  echo "seed=$s $p exit=$rc secs=$(( $(date +%s)-t0 )) $(echo "$out" | grep -E '^VIOLATION|INCONCLUSIVE|rule=' | head -3 | tr '\n' ' ' | cut -c1-300)"
done; done
echo ALLSEEDS-DONE

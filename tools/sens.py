#!/usr/bin/env python3
"""Sensitivity check: apply one textual mutation to /repo, rebuild the harness, run the named
properties' checks for a bounded number of cases, report who catches it, then revert /repo.
usage: sens.py <file> <old> <new> <prop>[,<prop>...] [cases] [config]
"""
import subprocess, sys, json, os, tempfile
f, old, new, props = sys.argv[1:5]
cases = int(sys.argv[5]) if len(sys.argv) > 5 else 30000
config = sys.argv[6] if len(sys.argv) > 6 else "std"
feats = {"std": "hooks", "shuttle": "hooks,shuttle", "persist": "hooks,persist"}[config]
tdir = {"std": "target", "shuttle": "target-shuttle", "persist": "target-persist"}[config]
path = os.path.join("/repo", f)
src = open(path).read()
if src.count(old) < 1:
    print("PATTERN NOT FOUND"); sys.exit(2)
open(path, "w").write(src.replace(old, new, 1))
try:
    r = subprocess.run(["cargo", "build", "--offline", "--quiet", "--features", feats, "--target-dir", tdir], cwd="/verif/harness", capture_output=True, text=True)
    if r.returncode != 0:
        print("BUILD FAILED", r.stderr[-1500:]); sys.exit(2)
    for p in props.split(","):
        procs = []
        for s in range(1, 5):
            out = tempfile.mktemp(suffix=".json")
            procs.append((subprocess.Popen([f"/verif/harness/{tdir}/debug/vh", "run", p, "--cases", str(cases), "--seed", str(s), "--out", out, "--replay-dir", "/tmp/sens-rp"], stdout=subprocess.DEVNULL, stderr=subprocess.DEVNULL), out))
        res = []
        for pr, out in procs:
            pr.wait()
            try:
                s = json.load(open(out)); os.unlink(out)
                if s["violations"]:
                    v = s["violations"][0]; res.append(f"CAUGHT after {s['cases']} cases: {v['rule']}: {v['detail'][:140]}")
                elif s.get("harness_error"):
                    res.append("HARNESS ERROR " + s["harness_error"][:200])
                else:
                    res.append(f"silent ({s['cases']} cases)")
            except Exception as e:
                res.append(f"no summary ({pr.returncode})")
        print(p, "|", " || ".join(sorted(set(res))[:3]))
finally:
    open(path, "w").write(src)
    subprocess.run(["rm", "-rf", "/tmp/sens-rp"])

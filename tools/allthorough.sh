#!/bin/bash
# run every registered thorough check once; one line per property
# usage: allthorough.sh [props...]
PROPS=${@:-$(python3 -c "import json;print(' '.join(json.load(open('props.json')).keys()))")}
./check --setup >/dev/null 2>&1
for p in $PROPS; do
  t0=$(date +%s); out=$(./check $p --tier thorough 2>&1); rc=$?
  echo "$p exit=$rc secs=$(( $(date +%s)-t0 )) $(echo "$out" | grep -E '^VIOLATION|INCONCLUSIVE|rule=' | head -4 | tr '\n' ' ' | cut -c1-500)"
done
echo ALLTHOROUGH-DONE
